import sys


def usage():
    print('usage: vx check <Cnn> [--tier quick|thorough] | vx replay <file> | vx setup | vx selftest')
    return 2


def main(argv):
    if not argv:
        return usage()
    cmd = argv[0]
    if cmd == 'check':
        import os
        pid = argv[1].upper()
        tier = os.environ.get('VERIF_TIER') or 'quick'
        if '--tier' in argv:
            tier = argv[argv.index('--tier') + 1]
        jobs = None
        if '--jobs' in argv:
            jobs = int(argv[argv.index('--jobs') + 1])
        from vxlib import driver
        return driver.main(pid, tier, jobs)
    if cmd == 'replay':
        from vxlib import driver
        return driver.replay_main(argv[1])
    if cmd == 'replay-batch':
        from vxlib import driver
        driver.replay_batch_main()
        return 0
    if cmd == 'selftest':
        from vxlib.symx import validate
        r = validate.run_all(0, verbose=True)
        return 1 if r['failures'] else 0
    return usage()


if __name__ == '__main__':
    sys.exit(main(sys.argv[1:]))
