"""Shared decoder sweep (C09, C10, C17b, C18): one syscall/trap window per decoder, fed through the
real TracesParser, rendered with str(), analysed as a template of literals and atoms."""
import z3

from oracle import kdebug as K
from vxlib.symx import (SymInt, SymBytes, SymMap, AtomStr, Atom, OutOfDomain, Unsupported, And, Or, Not, term)

TID = 0x1d3
_codes = {}


def codes():
    """bundled table: name -> event id (first id with clear qualifier bits), and id -> name"""
    if not _codes:
        from pykdebugparser.trace_codes import default_trace_codes
        t = default_trace_codes()
        by_name = {}
        for i, n in t.items():
            if i & 3 == 0 and n not in by_name:
                by_name[n] = i
        _codes['by_id'] = t
        _codes['by_name'] = by_name
    return _codes['by_id'], _codes['by_name']


def decoder_names(prefixes=('BSC_', 'MSC_')):
    from pykdebugparser.traces_parser import TracesParser
    p = TracesParser({}, {}, {})
    _, by_name = codes()
    return sorted(n for n in p.handlers if n.startswith(prefixes) and n in by_name)


def make_event(ts, args, tid, debugid):
    """a Kevent produced by the real record decoder from the oracle's packing of the fields"""
    from pykdebugparser.kevent import from_kd_buf
    return from_kd_buf(K.pack_rec(ts, args, tid, debugid))


def make_event_data(ts, data, tid, debugid):
    from pykdebugparser.kevent import from_kd_buf
    return from_kd_buf(K.pack_rec_data(ts, data, tid, debugid))


def lookup_records(ctx, prefix, ts0, tid, text, vnode_id, lookup_id):
    """the records kdebug_vfs_lookup emits for one path: 8-byte vnode id + 24 path bytes in the first record
    (START), 32 per continuation, NUL padding, END on the last record"""
    n = len(text)
    first = text[:24]
    rest = text[24:]
    chunks = [first]
    while len(rest):
        chunks.append(rest[:32]); rest = rest[32:]
    evs = []
    for i, ch in enumerate(chunks):
        q = 0
        if i == 0:
            q |= K.DBG_FUNC_START
        if i == len(chunks) - 1:
            q |= K.DBG_FUNC_END
        if i == 0:
            data = K.to_le(vnode_id, 8) + ch + bytes(24 - len(ch))
        else:
            data = ch + bytes(32 - len(ch))
        evs.append(make_event_data(ts0 + i, data, tid, lookup_id | q))
    return evs


def new_parser():
    from pykdebugparser.traces_parser import TracesParser
    by_id, _ = codes()
    p = TracesParser(by_id, SymMap(name='threads_pids'), SymMap(name='pids_names'))
    for attr in ('global_strings', 'tids_names'):
        if isinstance(getattr(p, attr, None), dict):
            setattr(p, attr, SymMap(name=attr))
    return p


PRE_NAMES = ['prestateA', '', 'q']
TABLES = ('threads_pids', 'pids_names', 'tids_names', 'global_strings')


def havoc_tables(ctx, tag='pre', k=3):
    """the four parser tables in an arbitrary pre-state (HavocMap): up to k distinct keys consulted per table, each bound
    or not (free Boolean) to a free 32-bit pid / a representative string"""
    from vxlib.symx import HavocMap
    out = {}
    for nm in TABLES:
        slots = []
        for i in range(k):
            present = ctx.bool('%s_%s_p%d' % (tag, nm, i))
            value = ctx.int('%s_%s_v%d' % (tag, nm, i), 32) if nm == 'threads_pids' else PRE_NAMES[i % 3]
            slots.append((present, value))
        out[nm] = HavocMap(slots, name=nm)
    return out


def with_prestate(ctx, fn, tag='pre', k=3):
    """fn(tables) evaluated from an arbitrary state of the parser tables.  Symbolic mode: HavocMaps.  Concrete mode: a first
    pass on HavocMaps with the replayed Booleans finds out which entries the run consults, the result comes from a second
    pass on real dicts holding exactly those entries."""
    tabs = havoc_tables(ctx, tag, k)
    if ctx.symbolic:
        return fn(tabs)
    n0 = getattr(ctx, '_sweep_windows', 0)
    try:
        fn(tabs)
    except Exception:       # noqa
        pass
    ctx._sweep_windows = n0          # the second pass declares the same inputs again
    return fn({n: dict(t.initial) for n, t in tabs.items()})


def parser_on(tables):
    """a TracesParser over the given table objects (HavocMaps, SymMaps or real dicts)"""
    from pykdebugparser.traces_parser import TracesParser
    by_id, _ = codes()
    p = TracesParser(by_id, tables['threads_pids'], tables['pids_names'])
    p.tids_names = tables['tids_names']
    p.global_strings = tables['global_strings']
    return p


# ------------------------------------------------------------------ template structure
class CallShape:
    """name(p0, p1, ...)rest  over pieces (str | Atom)"""

    def __init__(self, name, params, rest, ok):
        self.name, self.params, self.rest, self.ok = name, params, rest, ok


def split_call(pieces):
    """split a template at the top-level parentheses of the leading call"""
    name = []
    params = []
    cur = None
    depth = 0
    quote = None
    rest = []
    state = 'name'
    for p in pieces:
        if isinstance(p, Atom):
            if state == 'name':
                name.append(p)
            elif state == 'args':
                cur.append(p)
            else:
                rest.append(p)
            continue
        for ch in p:
            if state == 'name':
                if ch == '(':
                    state = 'args'; depth = 1; cur = []
                else:
                    name.append(ch)
            elif state == 'args':
                if quote:
                    cur.append(ch)
                    if ch == quote:
                        quote = None
                    continue
                if ch == '"':
                    quote = ch; cur.append(ch)
                elif ch in '([{':
                    depth += 1; cur.append(ch)
                elif ch in ')]}':
                    depth -= 1
                    if depth == 0:
                        if cur or params:
                            params.append(cur)
                        cur = None
                        state = 'rest'
                    else:
                        cur.append(ch)
                elif ch == ',' and depth == 1:
                    params.append(cur); cur = []
                else:
                    cur.append(ch)
            else:
                rest.append(ch)
    ok = state == 'rest' and all(isinstance(x, str) for x in name)

    def norm(seq):
        out = []
        buf = []
        for x in seq:
            if isinstance(x, str):
                buf.append(x)
            else:
                if buf:
                    out.append(''.join(buf)); buf = []
                out.append(x)
        if buf:
            out.append(''.join(buf))
        return out
    nm = ''.join(x for x in name if isinstance(x, str))
    return CallShape(nm, [strip_pieces(norm(p)) for p in params], norm(rest), ok)


def strip_pieces(ps):
    ps = list(ps)
    if ps and isinstance(ps[0], str):
        ps[0] = ps[0].lstrip()
        if not ps[0]:
            ps.pop(0)
    if ps and isinstance(ps[-1], str):
        ps[-1] = ps[-1].rstrip()
        if not ps[-1]:
            ps.pop()
    return ps


def atoms_of(pieces):
    return [p for p in pieces if isinstance(p, Atom)]


def term_vars(t):
    """names of the free variables of a z3 term"""
    seen = set()
    out = set()
    stack = [t]
    while stack:
        e = stack.pop()
        i = e.get_id()
        if i in seen:
            continue
        seen.add(i)
        if z3.is_const(e) and e.decl().kind() == z3.Z3_OP_UNINTERPRETED:
            out.add(e.decl().name())
        else:
            stack.extend(e.children())
    return out


def atom_vars(at):
    if at.kind in ('d', 'x', 'fmt', 'chr', 'lookup'):
        return term_vars(at.term)
    out = set()
    if at.kind in ('bytes', 'bytesrepr'):
        for it in at.term:
            if not isinstance(it, int):
                out |= term_vars(it)
    elif at.kind == 'join':
        for g, _ in at.term:
            if g is not True and g is not False:
                out |= term_vars(g)
    return out


# ------------------------------------------------------------------ running one window
class Outcome:
    def __init__(self, kind, text=None, exc=None, trace=None, pieces=None):
        self.kind = kind          # 'text' | 'ood' | 'exc' | 'none'
        self.text = text
        self.exc = exc
        self.trace = trace
        self.pieces = pieces


def run_window(ctx, name, a, r, lookups=(), tid=TID, ts0=100, code_name=None, lost=(), nested=0, prior=(), tables=None):
    """START(a) [lookup records] END(r) of decoder `name` on one thread through the real pipeline.
    lost: word lists of earlier STARTs of the same code on the same thread whose END never arrives
    nested: number of unrelated single records (a disk-I/O code, concrete words) the thread logs inside the window
    prior: (name, a, r) windows the same parser handled before on the same thread; what they raise is swallowed, as a caller
           that logs the error and goes on with the next record would
    tables: the four parser tables to start from (e.g. havoc_tables(ctx): an arbitrary pre-state) instead of empty ones"""
    by_id, by_name = codes()
    eid = by_name[code_name or name]
    lid = by_name['VFS_LOOKUP']
    before = [make_event(ts0 - len(lost) + i, w, tid, eid | K.DBG_FUNC_START) for i, w in enumerate(lost)]
    # the timestamps of the window's own START and END records are free (equal, decreasing, huge: all allowed)
    ts_start = ts_end = None
    if hasattr(ctx, 'int') and hasattr(ctx, 'records'):
        n = getattr(ctx, '_sweep_windows', 0)
        ctx._sweep_windows = n + 1
        ts_start, ts_end = ctx.int('win%d_ts_start' % n), ctx.int('win%d_ts_end' % n)
    evs = [make_event(ts0 if ts_start is None else ts_start, a, tid, eid | K.DBG_FUNC_START)]
    ts = ts0 + 1
    for i, (text, vnode) in enumerate(lookups):
        recs = lookup_records(ctx, 'l%d' % i, ts, tid, text, vnode, lid)
        evs += recs
        ts += len(recs)
    if nested:
        nid = by_name.get('P_RdData', 0x3020008)
        for i in range(nested):
            evs.append(make_event(ts, [13 + (i & 1), 777, i, 3], tid, nid))
            ts += 1
    evs.append(make_event(ts + 1 if ts_end is None else ts_end, r, tid, eid | K.DBG_FUNC_END))
    p = new_parser() if tables is None else parser_on(tables)
    for i, (pn, pa, pr) in enumerate(prior):
        pid_ = by_name[pn]
        for ev in (make_event(ts0 - 50 + 2 * i, pa, tid, pid_ | K.DBG_FUNC_START), make_event(ts0 - 49 + 2 * i, pr, tid, pid_ | K.DBG_FUNC_END)):
            try:
                t = p.feed(ev)
                if t is not None:
                    str(t)
            except Exception as e:       # noqa
                __import__('vxlib.symx.core', fromlist=['x']).proxy_rejected(e)
    out = []
    try:
        for t in p.feed_generator(iter(before + evs)):
            out.append(t)
        last = out[-1] if out else None
        if last is None or last.ktraces[0] is not evs[0]:
            return Outcome('none')
        s = str(last)
    except OutOfDomain:
        return Outcome('ood')
    except Exception as e:       # noqa: the decoder crashed; judged by C07, recorded here
        __import__('vxlib.symx.core', fromlist=['x']).proxy_rejected(e)
        return Outcome('exc', exc=e)
    return Outcome('text', text=s, trace=last, pieces=ctx.template(s))


def pieces_equal(p1, p2):
    """equality of two templates as a condition: False | True | SymBool.  A structural mismatch (a literal on one side, a
    rendered value on the other) is re-examined after the values the path condition pins to one constant have been
    replaced by their text."""
    r = _pieces_equal(p1, p2)
    if r is False and any(isinstance(x, Atom) for x in list(p1) + list(p2)):
        q1, q2 = _pinned_to_text(p1), _pinned_to_text(p2)
        if q1 is not None and q2 is not None and (q1 != list(p1) or q2 != list(p2)):
            return _pieces_equal(q1, q2)
    return r


def _pinned_to_text(ps):
    from vxlib.symx.core import eng
    try:
        en = eng()
        m = en.ensure_model()
    except BaseException:       # noqa
        return None
    out = []
    for x in ps:
        if isinstance(x, Atom) and x.kind in ('d', 'x', 'fmt', 'chr'):
            v = m.eval(x.term, model_completion=True)
            if not en.feasible(x.term != v):
                x = x.render(m)
        if out and isinstance(x, str) and isinstance(out[-1], str):
            out[-1] += x
        else:
            out.append(x)
    return out


def _pieces_equal(p1, p2):
    from vxlib.symx.values import bytes_items_eq, mkb
    if len(p1) != len(p2):
        return False
    conds = []
    for x, y in zip(p1, p2):
        if isinstance(x, str) or isinstance(y, str):
            if x != y:
                return False
            continue
        if x is y:
            continue
        if x.kind != y.kind or x.spec != y.spec:
            return False
        if x.kind in ('d', 'x', 'fmt', 'chr'):
            conds.append(mkb(x.term == y.term))
        elif x.kind == 'lookup':
            if x.extra is not y.extra and dict(x.extra) != dict(y.extra):
                return False
            conds.append(mkb(x.term == y.term))
        elif x.kind in ('bytes', 'bytesrepr'):
            conds.append(bytes_items_eq(x.term, y.term))
        elif x.kind == 'join':
            if x.extra != y.extra or len(x.term) != len(y.term):
                return False
            for (g1, s1), (g2, s2) in zip(x.term, y.term):
                if s1 != s2:
                    return False
                b1 = z3.BoolVal(g1) if isinstance(g1, bool) else g1
                b2 = z3.BoolVal(g2) if isinstance(g2, bool) else g2
                conds.append(mkb(b1 == b2))
        else:
            return False
    return And(*conds)


def strip_comments(ps):
    """remove /* ... */ comments (with the atoms inside) from a parameter"""
    out = []
    incomment = False
    for p in ps:
        if isinstance(p, Atom):
            if not incomment:
                out.append(p)
            continue
        s = p
        buf = ''
        while s:
            if incomment:
                j = s.find('*/')
                if j < 0:
                    s = ''
                else:
                    s = s[j + 2:]; incomment = False
            else:
                j = s.find('/*')
                if j < 0:
                    buf += s; s = ''
                else:
                    buf += s[:j]; s = s[j + 2:]; incomment = True
        if buf:
            out.append(buf)
    return strip_pieces(out)


HEAVY = ('socket', 'sockopt', 'fcntl', 'sigaction', 'csops', 'proc_info', 'ioctl', 'semaphore_timedwait')


def weight(st):
    n = st.get('name', '')
    return 10 if any(h in n for h in HEAVY) else 1


# ------------------------------------------------------------------ process-level state of the repo's modules
_snapshot = {}


def _repo_modules():
    import sys
    return [m for n, m in sorted(sys.modules.items()) if m is not None and (n == 'pykdebugparser' or n.startswith('pykdebugparser.'))]


def _containers(ns_owner, ns):
    for name, val in list(ns.items()):
        if name.startswith('__'):
            continue
        if isinstance(val, (dict, list, set)) and type(val) in (dict, list, set):
            yield ('c', ns_owner, name, val)
        elif callable(getattr(val, 'cache_clear', None)):
            yield ('f', ns_owner, name, val)


def snapshot_modules(mods):
    """-> restorable record of the module- and class-level containers / caches of the given module objects"""
    items = []
    for mod in mods:
        for it in _containers(mod, vars(mod)):
            items.append(it)
        for name, cls in list(vars(mod).items()):
            if isinstance(cls, type) and getattr(cls, '__module__', None) == mod.__name__:
                for it in _containers(cls, dict(vars(cls))):
                    items.append(it)
    return [(k, o, n, v, (type(v)(v) if k == 'c' else None)) for k, o, n, v in items]


def restore_modules(items):
    for kind, owner, name, obj, content in items:
        if kind == 'f':
            obj.cache_clear()
        elif _unchanged(obj, content):
            continue
        elif isinstance(obj, list):
            obj[:] = content
        else:
            obj.clear(); obj.update(content)


def snapshot_state():
    """remember the content of every module-level / class-level mutable container of the repo's modules as it is right
    after import (call once, before anything was decoded)"""
    if _snapshot:
        return
    import pykdebugparser.traces_parser      # noqa
    import pykdebugparser.pykdebugparser     # noqa
    items = []
    for mod in _repo_modules():
        for it in _containers(mod, vars(mod)):
            items.append(it)
        for name, cls in list(vars(mod).items()):
            if isinstance(cls, type) and getattr(cls, '__module__', None) == mod.__name__:
                for it in _containers(cls, dict(vars(cls))):
                    items.append(it)
    _snapshot['items'] = [(k, o, n, v, (type(v)(v) if k == 'c' else None)) for k, o, n, v in items]


_M = object()


def _unchanged(obj, content):
    """identity comparison (never calls == on the elements: they may be proxies)"""
    if len(obj) != len(content):
        return False
    if isinstance(obj, dict):
        for k, v in content.items():
            if obj.get(k, _M) is not v:
                return False
        return True
    if isinstance(obj, list):
        return all(x is y for x, y in zip(obj, content))
    return all(x in obj for x in content)


def reset_state():
    """bring that state back: what a fresh interpreter would start from (memo dicts, lru caches, class-level caches)"""
    if not _snapshot:
        snapshot_state()
        return
    for kind, owner, name, obj, content in _snapshot['items']:
        if kind == 'f':
            obj.cache_clear()
        elif _unchanged(obj, content):
            continue
        elif isinstance(obj, dict):
            obj.clear(); obj.update(content)
        elif isinstance(obj, list):
            obj[:] = content
        else:
            obj.clear(); obj.update(content)
    # containers created after the snapshot (module globals rebound later) are emptied
    known = {id(o) for _, _, _, o, _ in _snapshot['items']}
    for mod in _repo_modules():
        for kind, owner, name, obj in _containers(mod, vars(mod)):
            if id(obj) not in known and kind == 'c' and name not in _snapshot.get('late', set()):
                pass
