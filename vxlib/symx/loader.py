"""Import of /repo modules through a small, semantics-preserving AST rewrite (path merging).

Only three syntactic forms are rewritten, and each helper behaves exactly like the original
construct unless a symbolic guard is involved:

  [E for v in IT if C]   ->  __sx_listcomp__(IT, lambda v: C, lambda v: E)
  S.join(X)              ->  __sx_join__(S, X)
  map(F, X)              ->  __sx_map__(F, X)
  A in B / A not in B    ->  __sx_in__(A, B, negated)   (a symbolic container answers with a z3 condition)
  frozenset(X) / set(X)  ->  __sx_mkset__(frozenset, X)  (symbolic elements: list-based set, == decided by z3)
  if C: X.append(E)      ->  X = __sx_cond_append__(X, lambda: C, lambda: E)
                             (statement with no else, X a local name bound to a list display in the
                              same function; the helper appends in place and returns X itself unless C
                              is symbolic)

so that a flag word decoded by a comprehension over an enum becomes ONE path carrying a
GuardedList (element + z3 guard) instead of 2^n paths.  The rewritten modules are used only in
the symbolic runs; concrete replays import the untouched source.
"""
import ast
import builtins
import importlib.abc
import importlib.machinery
import sys
import z3

from .core import Unsupported
from .values import SymInt, SymBool, SymBytes, AtomStr, make_atom, as_bool
from .maps import GuardedList

PREFIX = 'pykdebugparser'
REWRITTEN = {}       # module name -> counts


def sx_listcomp(iterable, cond, elt):
    elems, guards = [], []
    symbolic = False
    if isinstance(iterable, GuardedList):
        base = list(zip(iterable.elems, iterable.guards))
        symbolic = True
    else:
        base = [(v, True) for v in iterable]
    for v, g0 in base:
        c = cond(v) if cond is not None else True
        if isinstance(c, (SymInt, SymBool)):
            g = as_bool(c)
        else:
            g = bool(c)
        if g is False:
            continue
        if g is not True:
            symbolic = True
        if g0 is not True:
            g = g0 if g is True else z3.And(g0, g)
        elems.append(elt(v))
        guards.append(g)
    if not symbolic or all(g is True for g in guards):
        return elems
    return GuardedList(elems, guards)


def sx_genexp(iterable, cond, elt):
    """(E for v in IT [if C]): stays a lazy generator unless a symbolic guard is involved"""
    if isinstance(iterable, GuardedList):
        return sx_listcomp(iterable, cond, elt)

    # laziness is kept for ordinary iterables; small in-memory sequences (enum classes, tuples, lists) are evaluated
    # eagerly so that symbolic guards can be merged
    if isinstance(iterable, (list, tuple)) or isinstance(iterable, type):
        return _materialise(iterable, cond, elt)
    return gen_plain(iterable, cond, elt)


def gen_plain(iterable, cond, elt):
    for v in iterable:
        c = cond(v) if cond is not None else True
        if c:
            yield elt(v)


def _materialise(iterable, cond, elt):
    r = sx_listcomp(iterable, cond, elt)
    if isinstance(r, GuardedList):
        return r
    return iter(r)


def sx_bool(x):
    if isinstance(x, SymBool):
        return x
    if isinstance(x, SymInt):
        return x != 0
    return bool(x)


def sx_map(f, *its):
    if len(its) == 1 and isinstance(its[0], GuardedList):
        gl = its[0]
        return GuardedList([f(e) for e in gl.elems], gl.guards)
    return map(f, *its)


def sx_join(s, x):
    if isinstance(s, (bytes, bytearray)):
        x = list(x)
        if any(isinstance(e, SymBytes) for e in x):
            items = []
            for i, e in enumerate(x):
                if i:
                    items += list(s)
                items += list(e.items) if isinstance(e, SymBytes) else list(e)
            return SymBytes.make(items)
        return s.join(x)
    if isinstance(s, str) and isinstance(x, GuardedList):
        from .values import has_atoms
        if all(isinstance(e, str) and not isinstance(e, AtomStr) and not has_atoms(e) for e in x.elems) \
                and not isinstance(s, AtomStr) and not has_atoms(s):
            return make_atom('join', [(g, e) for e, g in zip(x.elems, x.guards)], extra=s)
        return s.join(x.concretize())
    return s.join(x)


def sx_cond_append(lst, cond, elt):
    c = cond()
    if isinstance(c, (SymInt, SymBool)):
        g = as_bool(c)
    else:
        g = bool(c)
    if g is False:
        return lst
    if g is True:
        if isinstance(lst, GuardedList):
            lst.elems.append(elt()); lst.guards.append(True)
        else:
            lst.append(elt())
        return lst
    if not isinstance(lst, (list, GuardedList)):
        raise Unsupported('guarded append to %s' % type(lst).__name__)
    if isinstance(lst, list):
        lst = GuardedList(lst, [True] * len(lst))
    lst.elems.append(elt())
    lst.guards.append(g)
    return lst


_ABSENT = object()
PROBE_MAX = 300


def _probe(d, k):
    """a plain dict (or set) looked up with a symbolic int: fork over 'k equals this key' for every int key (and every key that is
    itself a pinned symbolic int) plus 'none of them', instead of hashing k (which would have to pick values for it).
    -> the matching key object | _ABSENT | None (not applicable: let the ordinary operation run)"""
    if type(d) not in (dict, set, frozenset) or not isinstance(k, SymInt) or isinstance(k, SymBool):
        return None
    keys = []
    for x in d:
        if isinstance(x, bool):
            continue
        if isinstance(x, (int, SymInt)):
            keys.append(x)
    if len(keys) > PROBE_MAX:
        return None
    from .core import eng
    import z3
    if not keys:
        return _ABSENT
    conds = []
    for x in keys:
        c = (k == x)
        c = c.e if isinstance(c, SymBool) else z3.BoolVal(bool(c))
        conds.append(c)
    # 'none of the keys' is explored first: the fallback branch of a lookup is where tables get extended or defaults are
    # made up, and a depth-first exploration that is cut short should have seen it
    none = z3.Not(z3.Or(*conds)) if len(conds) > 1 else z3.Not(conds[0])
    i = eng().choose([none] + conds)
    return _ABSENT if i == 0 else keys[i - 1]


def sx_getitem(obj, key):
    hit = _probe(obj, key)
    if hit is None:
        return obj[key]
    if hit is _ABSENT:
        raise KeyError(key)
    return dict.__getitem__(obj, hit)


def sx_get(obj, *args):
    if args:
        hit = _probe(obj, args[0])
        if hit is not None:
            if hit is _ABSENT:
                return args[1] if len(args) > 1 else None
            return dict.__getitem__(obj, hit)
    return obj.get(*args)


builtins.__sx_getitem__ = sx_getitem
builtins.__sx_get__ = sx_get


def sx_in(x, y, negate=False):
    hit = _probe(y, x)
    if hit is not None:
        return (hit is _ABSENT) if negate else (hit is not _ABSENT)
    f = getattr(y, '_sx_contains_', None)
    if f is not None:
        r = f(x)
        if negate:
            from .values import Not
            return Not(r)
        return r
    return (x not in y) if negate else (x in y)


def sx_mkset(ctor, *args):
    if len(args) == 1 and not isinstance(args[0], (str, bytes)):
        try:
            elems = list(args[0])
        except TypeError:
            return ctor(*args)
        if any(isinstance(e, (SymInt, SymBool)) for e in elems):
            from .maps import SymSet
            return SymSet(elems, frozen=ctor is frozenset)
        return ctor(elems)
    return ctor(*args)


HOST_MODULES = ('errno', 'signal', 'socket', 'os', 'sys', 'stat', 'fcntl', 'resource', 'platform', 'locale', 'time')
host_provider = [None]      # C18 installs a function name -> proxy module here (before the repo is imported)


def sx_host(name):
    import importlib
    real = importlib.import_module(name)
    if host_provider[0] is not None and name in HOST_MODULES:
        return host_provider[0](name, real)
    return real


def sx_host_attr(name, attr):
    return getattr(sx_host(name), attr)


def sx_isinstance(obj, classinfo):
    """isinstance() in the code under test: a proxy is an instance of what it stands for"""
    r = isinstance(obj, classinfo)
    if r:
        return r
    from .values import SymInt, SymBool, SymBytes, AtomStr
    from .symstr import SymStr
    stands_for = None
    if isinstance(obj, SymBool):
        stands_for = bool
    elif isinstance(obj, SymInt):
        stands_for = int
    elif isinstance(obj, SymBytes):
        stands_for = bytes
    elif isinstance(obj, (AtomStr, SymStr)):
        stands_for = str
    if stands_for is None:
        return r
    try:
        return issubclass(stands_for, classinfo)
    except TypeError:
        return r


builtins.__sx_isinstance__ = sx_isinstance
builtins.__sx_genexp__ = sx_genexp
builtins.__sx_bool__ = sx_bool
builtins.__sx_host__ = sx_host
builtins.__sx_host_attr__ = sx_host_attr
builtins.__sx_in__ = sx_in
builtins.__sx_mkset__ = sx_mkset
builtins.__sx_cond_append__ = sx_cond_append
builtins.__sx_listcomp__ = sx_listcomp
builtins.__sx_map__ = sx_map
builtins.__sx_join__ = sx_join


class Rewriter(ast.NodeTransformer):
    def __init__(self):
        self.counts = {'listcomp': 0, 'join': 0, 'map': 0, 'cond_append': 0, 'in': 0, 'set': 0}
        self.list_locals = [set()]

    def visit_FunctionDef(self, node):
        names = set()
        bad = set()
        for n in ast.walk(node):
            if isinstance(n, ast.Assign) and len(n.targets) == 1 and isinstance(n.targets[0], ast.Name) \
                    and isinstance(n.value, ast.List):
                names.add(n.targets[0].id)
            elif isinstance(n, (ast.Global, ast.Nonlocal)):
                bad.update(n.names)
        self.list_locals.append(names - bad)
        try:
            self.generic_visit(node)
        finally:
            self.list_locals.pop()
        return node

    def visit_If(self, node):
        self.generic_visit(node)
        if node.orelse or len(node.body) != 1:
            return node
        st = node.body[0]
        if not (isinstance(st, ast.Expr) and isinstance(st.value, ast.Call)):
            return node
        call = st.value
        f = call.func
        if not (isinstance(f, ast.Attribute) and f.attr == 'append' and isinstance(f.value, ast.Name)
                and len(call.args) == 1 and not call.keywords and not isinstance(call.args[0], ast.Starred)):
            return node
        if f.value.id not in self.list_locals[-1] or _has_walrus_or_yield(node):
            return node
        self.counts['cond_append'] += 1
        noargs = ast.arguments(posonlyargs=[], args=[], kwonlyargs=[], kw_defaults=[], defaults=[])
        new = ast.Assign(
            targets=[ast.Name(id=f.value.id, ctx=ast.Store())],
            value=ast.Call(func=ast.Name(id='__sx_cond_append__', ctx=ast.Load()),
                           args=[ast.Name(id=f.value.id, ctx=ast.Load()), ast.Lambda(args=noargs, body=node.test),
                                 ast.Lambda(args=noargs, body=call.args[0])], keywords=[]))
        return ast.copy_location(new, node)

    def visit_ListComp(self, node):
        self.generic_visit(node)
        if len(node.generators) != 1:
            return node
        return self._comp(node, '__sx_listcomp__')

    def visit_GeneratorExp(self, node):
        self.generic_visit(node)
        if len(node.generators) != 1:
            return node
        return self._comp(node, '__sx_genexp__')

    def _comp(self, node, helper):
        g = node.generators[0]
        if g.is_async or len(g.ifs) > 1 or not isinstance(g.target, ast.Name):
            return node
        if _has_walrus_or_yield(node):
            return node
        self.counts['listcomp'] += 1
        arg = ast.arguments(posonlyargs=[], args=[ast.arg(arg=g.target.id)], kwonlyargs=[], kw_defaults=[],
                            defaults=[])
        cond = ast.Lambda(args=arg, body=g.ifs[0]) if g.ifs else ast.Constant(value=None)
        new = ast.Call(func=ast.Name(id=helper, ctx=ast.Load()),
                       args=[g.iter, cond, ast.Lambda(args=arg, body=node.elt)], keywords=[])
        return ast.copy_location(new, node)

    def visit_Import(self, node):
        # `import errno` in a repo module binds the (possibly proxied) host module: host reads become observable
        if len(node.names) == 1 and node.names[0].name in HOST_MODULES:
            a = node.names[0]
            new = ast.Assign(targets=[ast.Name(id=a.asname or a.name, ctx=ast.Store())],
                             value=ast.Call(func=ast.Name(id='__sx_host__', ctx=ast.Load()), args=[ast.Constant(value=a.name)], keywords=[]))
            self.counts['host_import'] = self.counts.get('host_import', 0) + 1
            return ast.copy_location(new, node)
        return node

    def visit_ImportFrom(self, node):
        if node.level == 0 and node.module in HOST_MODULES and all(a.name != '*' for a in node.names):
            out = []
            for a in node.names:
                out.append(ast.copy_location(ast.Assign(
                    targets=[ast.Name(id=a.asname or a.name, ctx=ast.Store())],
                    value=ast.Call(func=ast.Name(id='__sx_host_attr__', ctx=ast.Load()),
                                   args=[ast.Constant(value=node.module), ast.Constant(value=a.name)], keywords=[])), node))
            self.counts['host_import'] = self.counts.get('host_import', 0) + len(out)
            return out
        return node

    def visit_Compare(self, node):
        self.generic_visit(node)
        if len(node.ops) == 1 and isinstance(node.ops[0], (ast.In, ast.NotIn)):
            self.counts['in'] += 1
            new = ast.Call(func=ast.Name(id='__sx_in__', ctx=ast.Load()),
                           args=[node.left, node.comparators[0], ast.Constant(value=isinstance(node.ops[0], ast.NotIn))],
                           keywords=[])
            return ast.copy_location(new, node)
        return node

    def visit_Subscript(self, node):
        self.generic_visit(node)
        if isinstance(node.ctx, ast.Load) and not isinstance(node.slice, ast.Slice) and not (
                isinstance(node.slice, ast.Tuple) and any(isinstance(e, (ast.Slice, ast.Starred)) for e in node.slice.elts)):
            self.counts['getitem'] = self.counts.get('getitem', 0) + 1
            new = ast.Call(func=ast.Name(id='__sx_getitem__', ctx=ast.Load()), args=[node.value, node.slice], keywords=[])
            return ast.copy_location(new, node)
        return node

    def visit_Call(self, node):
        self.generic_visit(node)
        f = node.func
        if isinstance(f, ast.Attribute) and f.attr == 'get' and 1 <= len(node.args) <= 2 and not node.keywords \
                and not any(isinstance(a, ast.Starred) for a in node.args):
            self.counts['get'] = self.counts.get('get', 0) + 1
            new = ast.Call(func=ast.Name(id='__sx_get__', ctx=ast.Load()), args=[f.value] + node.args, keywords=[])
            return ast.copy_location(new, node)
        if isinstance(f, ast.Name) and f.id == 'bool' and len(node.args) == 1 and not node.keywords \
                and not isinstance(node.args[0], ast.Starred):
            self.counts['bool'] = self.counts.get('bool', 0) + 1
            new = ast.Call(func=ast.Name(id='__sx_bool__', ctx=ast.Load()), args=node.args, keywords=[])
            return ast.copy_location(new, node)
        if isinstance(f, ast.Name) and f.id == 'isinstance' and len(node.args) == 2 and not node.keywords \
                and not any(isinstance(a, ast.Starred) for a in node.args):
            self.counts['isinstance'] = self.counts.get('isinstance', 0) + 1
            new = ast.Call(func=ast.Name(id='__sx_isinstance__', ctx=ast.Load()), args=node.args, keywords=[])
            return ast.copy_location(new, node)
        if isinstance(f, ast.Name) and f.id in ('frozenset', 'set') and len(node.args) == 1 and not node.keywords \
                and not isinstance(node.args[0], ast.Starred):
            self.counts['set'] += 1
            new = ast.Call(func=ast.Name(id='__sx_mkset__', ctx=ast.Load()), args=[ast.Name(id=f.id, ctx=ast.Load())] + node.args,
                           keywords=[])
            return ast.copy_location(new, node)
        if isinstance(f, ast.Attribute) and f.attr == 'join' and len(node.args) == 1 and not node.keywords \
                and not isinstance(node.args[0], ast.Starred):
            self.counts['join'] += 1
            new = ast.Call(func=ast.Name(id='__sx_join__', ctx=ast.Load()), args=[f.value, node.args[0]], keywords=[])
            return ast.copy_location(new, node)
        if isinstance(f, ast.Name) and f.id == 'map' and not node.keywords and len(node.args) >= 2 \
                and not any(isinstance(a, ast.Starred) for a in node.args):
            self.counts['map'] += 1
            new = ast.Call(func=ast.Name(id='__sx_map__', ctx=ast.Load()), args=node.args, keywords=[])
            return ast.copy_location(new, node)
        return node


def _has_walrus_or_yield(node):
    for n in ast.walk(node):
        if isinstance(n, (ast.NamedExpr, ast.Yield, ast.YieldFrom, ast.Await)):
            return True
    return False


def rewrite_source(source, filename):
    tree = ast.parse(source, filename)
    rw = Rewriter()
    tree = rw.visit(tree)
    ast.fix_missing_locations(tree)
    return compile(tree, filename, 'exec', dont_inherit=True), rw.counts


class _Loader(importlib.machinery.SourceFileLoader):
    def get_code(self, fullname):
        path = self.get_filename(fullname)
        source = self.get_data(path)
        code, counts = rewrite_source(source, path)
        REWRITTEN[fullname] = counts
        return code


class _Finder(importlib.abc.MetaPathFinder):
    def find_spec(self, fullname, path, target=None):
        if fullname != PREFIX and not fullname.startswith(PREFIX + '.'):
            return None
        spec = importlib.machinery.PathFinder.find_spec(fullname, path, target)
        if spec is None or not isinstance(spec.loader, importlib.machinery.SourceFileLoader):
            return spec
        spec.loader = _Loader(spec.loader.name, spec.loader.path)
        return spec


_finder = _Finder()


def install():
    """must run before any pykdebugparser module is imported"""
    if _finder in sys.meta_path:
        return
    already = [m for m in sys.modules if m == PREFIX or m.startswith(PREFIX + '.')]
    if already:
        raise RuntimeError('loader.install() after import of %s' % already[:3])
    sys.meta_path.insert(0, _finder)


_pristine = {}


def load_pristine(modname):
    """a second, untouched copy of a repo module (the loop-style helpers path-wise; validating the rewrite)"""
    if modname in _pristine:
        return _pristine[modname]
    import os
    from vxlib.paths import REPO
    path = os.path.join(REPO, *modname.split('.')) + '.py'
    with open(path, 'rb') as f:
        src = f.read()
    code = compile(src, path, 'exec', dont_inherit=True)
    name = '_pristine_.' + modname
    mod = type(sys)(name)
    mod.__file__ = path
    mod.__package__ = modname.rpartition('.')[0]
    sys.modules[name] = mod
    exec(code, mod.__dict__)
    _pristine[modname] = mod
    return mod


def _parent_path(modname):
    import os
    parts = modname.split('.')[:-1]
    from vxlib.paths import REPO
    return os.path.join(REPO, *parts)
