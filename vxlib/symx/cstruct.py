"""Symbolic parse of a construct Struct, generated from the construct object itself (C16).

Supports what os_log_event.firehose_tracepoint_id uses: Struct of Renamed(FormatField) and
Renamed(Bitwise(Struct(Padding(n) | Flag | BitsInteger(n)))), bits MSB-first inside each byte.
Anything else raises Unsupported.  Validated per run against construct's own parse on concrete words.
"""
import construct
import z3
from .core import Unsupported, W
from .values import SymBytes, SymInt, mk, mkb
from . import shims


def parse_struct(con, data):
    """data: SymBytes -> construct.Container with SymInt / SymBool leaves"""
    out, pos = _parse(con, data.items, 0)
    if pos > len(data.items):
        raise construct.StreamError('stream read less than specified amount')
    return out


def _parse(con, items, pos):
    if isinstance(con, construct.Renamed):
        return _parse(con.subcon, items, pos)
    if isinstance(con, construct.Struct):
        c = construct.Container()
        for sc in con.subcons:
            v, pos = _parse(sc, items, pos)
            if getattr(sc, 'name', None):
                c[sc.name] = v
        return c, pos
    if isinstance(con, construct.FormatField):
        n = con.length
        if pos + n > len(items):
            raise construct.StreamError('stream read less than specified amount')
        v = shims.sym_unpack(con.fmtstr, SymBytes(items[pos:pos + n]))[0]
        return v, pos + n
    if isinstance(con, construct.Transformed):
        # Bitwise(subcon) of known size: decodefunc is bytes2bits over decodeamount bytes
        n = con.decodeamount
        if n is None or con.decodefunc is not construct.bytes2bits:
            raise Unsupported('construct Transformed other than fixed-size Bitwise')
        bits = []
        for it in items[pos:pos + n]:
            for b in range(7, -1, -1):          # MSB first
                if isinstance(it, int):
                    bits.append((it >> b) & 1)
                else:
                    bits.append(z3.Extract(b, b, it))
        v, bpos = _parse_bits(con.subcon, bits, 0)
        return v, pos + n
    raise Unsupported('construct %s in a symbolic parse' % type(con).__name__)


def _bits_to_int(bits):
    if all(isinstance(b, int) for b in bits):
        v = 0
        for b in bits:
            v = (v << 1) | b
        return v
    bv = [z3.BitVecVal(b, 1) if isinstance(b, int) else b for b in bits]
    e = z3.Concat(*bv) if len(bv) > 1 else bv[0]
    return mk(z3.ZeroExt(W - len(bv), e), len(bv), True)


def _parse_bits(con, bits, pos):
    if isinstance(con, construct.Renamed):
        return _parse_bits(con.subcon, bits, pos)
    if isinstance(con, construct.Struct):
        c = construct.Container()
        for sc in con.subcons:
            v, pos = _parse_bits(sc, bits, pos)
            if getattr(sc, 'name', None):
                c[sc.name] = v
        return c, pos
    if isinstance(con, construct.Padded):
        return None, pos + con.length
    if isinstance(con, construct.BitsInteger):
        if con.signed or con.swapped:
            raise Unsupported('signed / swapped BitsInteger')
        n = con.length
        return _bits_to_int(bits[pos:pos + n]), pos + n
    if type(con).__name__ == 'Flag':
        v = _bits_to_int(bits[pos:pos + 1])
        return (v != 0), pos + 1
    raise Unsupported('construct %s inside a bit struct' % type(con).__name__)


class ParseStub:
    """wraps a construct object: .parse(SymBytes) goes through the generated model, everything else is delegated"""

    def __init__(self, con):
        self._con = con

    def parse(self, data, **kw):
        if isinstance(data, SymBytes):
            return parse_struct(self._con, data)
        return self._con.parse(data, **kw)

    def __getattr__(self, name):
        return getattr(self._con, name)


class BuildStub:
    """wraps a construct FormatField: .build(SymInt) packs through the struct model"""

    def __init__(self, con):
        self._con = con

    def build(self, obj, **kw):
        if isinstance(obj, SymInt):
            if not isinstance(self._con, construct.FormatField):
                raise Unsupported('build of %s with a symbolic value' % type(self._con).__name__)
            return shims.sym_pack(self._con.fmtstr, obj)
        return self._con.build(obj, **kw)

    def __getattr__(self, name):
        return getattr(self._con, name)
