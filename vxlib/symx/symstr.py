"""SymStr: a short str whose characters are 8-bit terms (ASCII, < 0x80) - used by C19 only."""
import z3
from .core import Unsupported, W, eng
from .values import SymInt, SymBool, mk, mkb, And, Or

LINEBREAKS = (0x0a, 0x0b, 0x0c, 0x0d, 0x1c, 0x1d, 0x1e)
WHITESPACE = (0x09, 0x0a, 0x0b, 0x0c, 0x0d, 0x1c, 0x1d, 0x1e, 0x1f, 0x20)


def _is(it, values):
    """bool: is the character item one of `values` (forks when undetermined)"""
    if isinstance(it, int):
        return it in values
    return eng().branch(z3.Or(*[it == v for v in values]))


class SymStr:
    __slots__ = ('items',)

    def __init__(self, items):
        self.items = list(items)

    @staticmethod
    def make(items):
        items = list(items)
        if all(isinstance(i, int) for i in items):
            return ''.join(chr(i) for i in items)
        return SymStr(items)

    def __len__(self):
        return len(self.items)

    def __getitem__(self, i):
        if isinstance(i, slice):
            return SymStr.make(self.items[i])
        return SymStr.make([self.items[i]])

    def __add__(self, o):
        if isinstance(o, SymStr):
            return SymStr.make(self.items + o.items)
        if isinstance(o, str):
            return SymStr.make(self.items + [ord(c) for c in o])
        return NotImplemented

    def __radd__(self, o):
        if isinstance(o, str):
            return SymStr.make([ord(c) for c in o] + self.items)
        return NotImplemented

    def __eq__(self, o):
        if isinstance(o, str):
            o = SymStr([ord(c) for c in o])
        if not isinstance(o, SymStr):
            return NotImplemented
        if len(o) != len(self):
            return False
        conds = []
        for a, b in zip(self.items, o.items):
            if isinstance(a, int) and isinstance(b, int):
                if a != b:
                    return False
                continue
            a = z3.BitVecVal(a, 8) if isinstance(a, int) else a
            b = z3.BitVecVal(b, 8) if isinstance(b, int) else b
            conds.append(a == b)
        return And(*[mkb(c) for c in conds])

    def __ne__(self, o):
        from .values import Not
        r = self.__eq__(o)
        return r if r is NotImplemented else Not(r)

    def _lex(self, o, strict_less):
        if isinstance(o, str):
            o = SymStr([ord(c) for c in o])
        if not isinstance(o, SymStr):
            return NotImplemented
        for a, b in zip(self.items, o.items):
            a = z3.BitVecVal(a, 8) if isinstance(a, int) else a
            b = z3.BitVecVal(b, 8) if isinstance(b, int) else b
            if eng().branch(z3.ULT(a, b)):
                return True
            if eng().branch(z3.UGT(a, b)):
                return False
        return (len(self.items) < len(o.items)) if strict_less else (len(self.items) <= len(o.items))

    def __lt__(self, o):
        return self._lex(o, True)

    def __le__(self, o):
        return self._lex(o, False)

    def __gt__(self, o):
        r = self._lex(o, False)
        return r if r is NotImplemented else not r

    def __ge__(self, o):
        r = self._lex(o, True)
        return r if r is NotImplemented else not r

    def __hash__(self):
        raise Unsupported('hash of a symbolic string')

    def __bool__(self):
        return len(self.items) > 0

    def __iter__(self):
        for i in range(len(self.items)):
            yield self[i]

    def splitlines(self, keepends=False):
        if keepends:
            raise Unsupported('splitlines(keepends=True)')
        out, cur = [], []
        i, n = 0, len(self.items)
        while i < n:
            it = self.items[i]
            if _is(it, LINEBREAKS):
                out.append(SymStr.make(cur)); cur = []
                # \r\n counts as one break
                if _is(it, (0x0d,)) and i + 1 < n and _is(self.items[i + 1], (0x0a,)):
                    i += 1
            else:
                cur.append(it)
            i += 1
        if cur:
            out.append(SymStr.make(cur))
        return out

    def split(self, sep=None, maxsplit=-1):
        if sep is not None or maxsplit != -1:
            raise Unsupported('split with a separator / maxsplit')
        out, cur = [], []
        for it in self.items:
            if _is(it, WHITESPACE):
                if cur:
                    out.append(SymStr.make(cur)); cur = []
            else:
                cur.append(it)
        if cur:
            out.append(SymStr.make(cur))
        return out

    def __repr__(self):
        return 'SymStr(%d)' % len(self.items)

    def _nosup(self, *a, **k):
        raise Unsupported('string operation on a symbolic string')

    strip = lstrip = rstrip = lower = upper = startswith = endswith = find = replace = encode = partition = _nosup


_real_int = int


def hex_value(s):
    """value of a hex literal with optional 0x/0X prefix, as int(s, 16) computes it; digits may be symbolic
    (harness constrains them to the hex alphabet); anything else raises ValueError like int()"""
    items = list(s.items)
    if len(items) >= 2 and isinstance(items[0], int) and items[0] == 0x30 and isinstance(items[1], int) and items[1] in (0x78, 0x58):
        items = items[2:]
    elif len(items) >= 2 and not (isinstance(items[0], int) and isinstance(items[1], int)):
        # a symbolic prefix: is it '0x' / '0X'?
        c0 = items[0] if not isinstance(items[0], int) else z3.BitVecVal(items[0], 8)
        c1 = items[1] if not isinstance(items[1], int) else z3.BitVecVal(items[1], 8)
        if eng().branch(z3.And(c0 == 0x30, z3.Or(c1 == 0x78, c1 == 0x58))):
            items = items[2:]
    if not items:
        raise ValueError('invalid literal for int() with base 16')
    if len(items) > 16:
        raise Unsupported('hex literal longer than 16 digits')
    val = z3.BitVecVal(0, W)
    for it in items:
        if isinstance(it, int):
            try:
                d = z3.BitVecVal(_real_int(chr(it), 16), W)
            except ValueError:
                raise ValueError('invalid literal for int() with base 16')
        else:
            isdig = z3.And(z3.UGE(it, 0x30), z3.ULE(it, 0x39))
            islow = z3.And(z3.UGE(it, 0x61), z3.ULE(it, 0x66))
            isup = z3.And(z3.UGE(it, 0x41), z3.ULE(it, 0x46))
            if not eng().branch(z3.Or(isdig, islow, isup)):
                raise ValueError('invalid literal for int() with base 16')
            w = z3.ZeroExt(W - 8, it)
            d = z3.If(isdig, w - 0x30, z3.If(islow, w - 0x61 + 10, w - 0x41 + 10))
        val = (val << 4) | d
    return mk(val, 4 * len(items), True)


def sym_int(x, base=10):
    if isinstance(x, SymStr):
        if base != 16:
            raise Unsupported('int() of a symbolic string with base %r' % base)
        return hex_value(x)
    return _real_int(x, base) if isinstance(x, (str, bytes, bytearray)) else _real_int(x)
