"""SymStream: an io.BytesIO stand-in whose content may contain symbolic bytes."""
import io
from .core import Budget
from .values import SymBytes, SymInt


class SymStream:
    def __init__(self, data, read_budget=None):
        if isinstance(data, SymBytes):
            self.items = list(data.items)
        else:
            self.items = list(data)
        self.pos = 0
        self.reads = 0
        self.bytes_read = 0
        self.budget = read_budget if read_budget is not None else 4 * len(self.items) + 64
        self.closed = False

    def _count(self):
        self.reads += 1
        if self.reads > self.budget:
            raise Budget('more than %d reads from a stream of %d bytes' % (self.budget, len(self.items)))

    def read(self, n=-1):
        self._count()
        if isinstance(n, SymInt):
            n = n.__index__()
        if n is None or n < 0:
            n = len(self.items) - self.pos
        chunk = self.items[self.pos:self.pos + n]
        self.pos += len(chunk)
        self.bytes_read += len(chunk)
        return SymBytes.make(chunk)

    def readinto(self, buf):
        self._count()
        n = len(buf)
        chunk = self.items[self.pos:self.pos + n]
        if not all(isinstance(i, int) for i in chunk):
            from .core import Unsupported
            raise Unsupported('readinto() of symbolic bytes into a real buffer')
        self.pos += len(chunk)
        self.bytes_read += len(chunk)
        buf[:len(chunk)] = bytes(chunk)
        return len(chunk)

    def seek(self, off, whence=0):
        if isinstance(off, SymInt):
            off = off.__index__()
        if whence == 0:
            p = off
        elif whence == 1:
            p = self.pos + off
        elif whence == 2:
            p = len(self.items) + off
        else:
            raise ValueError('whence')
        if p < 0:
            raise ValueError('negative seek position %d' % p)
        self.pos = p
        return p

    def tell(self):
        return self.pos

    def readable(self):
        return True

    def seekable(self):
        return True

    def writable(self):
        return False

    def close(self):
        self.closed = True

    def __enter__(self):
        return self

    def __exit__(self, *a):
        self.close()


class CountingBytesIO(io.BytesIO):
    """concrete twin used in replays: same read budget"""

    def __init__(self, data, read_budget=None):
        super().__init__(data)
        self.reads = 0
        self.budget = read_budget if read_budget is not None else 4 * len(data) + 64

    def read(self, n=-1):
        self.reads += 1
        if self.reads > self.budget:
            raise Budget('more than %d reads from a stream of %d bytes' % (self.budget, len(self.getvalue())))
        return super().read(n)


def make_stream(data, read_budget=None):
    """SymStream for proxy content, a counting BytesIO for plain bytes"""
    if isinstance(data, (bytes, bytearray)):
        return CountingBytesIO(bytes(data), read_budget)
    return SymStream(data, read_budget)
