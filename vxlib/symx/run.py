"""Harness context and path-tree exploration.

A harness is a function run(ctx, structure).  It obtains its inputs from ctx (symbolic proxies in
symbolic mode, plain ints/bytes in concrete mode), calls the real /repo code and states
obligations with ctx.check(label, cond).  The same function is used for the solver-decided
exploration and for the concrete replay of counterexamples.
"""
import sys
import time
import traceback
import z3

from . import core
from .core import Engine, Abort, Unsupported, Budget, Divergence, set_engine, as_bool, W
from .values import (SymInt, SymBool, SymBytes, AtomStr, signed, parse_template, render_template,
                     describe_template, has_atoms, eval_item, Atom)

from vxlib.paths import REPO_PREFIX


class Inconclusive(Exception):
    pass


class BaseCtx:
    symbolic = False

    def note(self, key, value):
        self.notes[key] = value


class SymCtx(BaseCtx):
    symbolic = True

    def __init__(self, eng):
        self.eng = eng
        self.inputs = {}         # name -> (bits | ('bytes', n), z3 consts)
        self.records = []        # (label, status, values | None)
        self.observed = []       # (name, kind, payload)
        self.notes = {}

    # ---- inputs
    def int(self, name, bits=64):
        if name in self.inputs:
            raise AssertionError('duplicate input ' + name)
        v = z3.BitVec(name, bits)
        self.inputs[name] = (bits, v)
        return SymInt(z3.ZeroExt(W - bits, v), bits, True)

    def bool(self, name):
        return self.int(name, 1) != 0

    def bytes(self, name, n):
        if name in self.inputs:
            raise AssertionError('duplicate input ' + name)
        vs = [z3.BitVec('%s[%d]' % (name, i), 8) for i in range(n)]
        self.inputs[name] = (('bytes', n), vs)
        return SymBytes(vs) if n else b''

    def choice(self, name, k):
        """symbolic index 0..k-1, concretised immediately by forking (structure made symbolic)"""
        bits = max(1, (k - 1).bit_length())
        x = self.int(name, bits)
        self.assume(x < k)
        return x.concretize('choice')

    # ---- obligations
    def assume(self, cond):
        self.eng.assume(cond)

    def check(self, label, cond, detail=None):
        c = as_bool(cond)
        self.eng.n_prop += 1
        if c is True:
            self.records.append((label, 'ok', None)); return True
        if c is False:
            m = self.eng.model()
        else:
            m = self.eng.model(z3.Not(c))
            en = self.eng
            en.n_prop_solver += 1
            if en.cross_every and en.n_prop_solver % en.cross_every == 0:
                t0 = time.time()
                try:
                    v = core.cvc5_verdict(en.solver, z3.Not(c))
                except Exception as e:      # noqa
                    v = 'error'
                en.cross['cvc5_s'] += time.time() - t0
                en.cross['checked'] += 1
                mine = 'unsat' if m is None else 'sat'
                if v == mine:
                    en.cross['agree'] += 1
                elif v in ('error', 'unknown'):
                    en.cross['errors'] += 1
                else:
                    en.cross['disagree'].append('%s: z3 %s, cvc5 %s' % (label, mine, v))
        if m is None:
            if c is False:
                raise Abort('infeasible path reached a check')
            self.records.append((label, 'ok', None)); return True
        self.records.append((label, 'viol', self.values_of(m), detail))
        return False

    def fail(self, label, detail=None):
        return self.check(label, False, detail)

    def reach(self, label='reach'):
        """reachability witness: counts the paths that get here"""
        self.records.append((label, 'reached', None))

    def values_of(self, m):
        out = {}
        for name, (kind, v) in self.inputs.items():
            if isinstance(kind, tuple):
                out[name] = bytes(m.eval(b, model_completion=True).as_long() for b in v).hex()
            else:
                out[name] = m.eval(v, model_completion=True).as_long()
        return out

    # ---- observation (engine validation by concrete replay of sampled paths)
    def observe(self, name, value):
        self.observed.append((name, value))

    def instantiate_observed(self, m):
        out = []
        for name, value in self.observed:
            out.append([name, concretize_value(value, m, self.eng.atoms)])
        return out

    def template(self, s):
        """parse a rendered string into pieces (str | Atom)"""
        if isinstance(s, AtomStr):
            return [s.atom]
        return parse_template(s, self.eng.atoms)

    def must(self, cond):
        return self.eng.must(cond)


def concretize_value(value, m, atoms):
    if isinstance(value, SymInt):
        return signed(m.eval(value.e, model_completion=True).as_long())
    if isinstance(value, SymBool):
        return z3.is_true(m.eval(value.e, model_completion=True))
    if isinstance(value, SymBytes):
        return bytes(eval_item(m, it) for it in value.items).hex()
    if isinstance(value, (bytes, bytearray)):
        return bytes(value).hex()
    if isinstance(value, str):
        if isinstance(value, AtomStr):
            return value.atom.render(m)
        if has_atoms(value):
            return render_template(parse_template(value, atoms), m)
        return value
    if isinstance(value, (list, tuple)):
        return [concretize_value(v, m, atoms) for v in value]
    if isinstance(value, dict):
        return {str(k): concretize_value(v, m, atoms) for k, v in value.items()}
    if value is None or isinstance(value, (int, float, bool)):
        return value
    return repr(value)


class ConcreteCtx(BaseCtx):
    """Replays a harness on concrete input values with no proxy in sight."""
    symbolic = False

    def __init__(self, values, hints=()):
        self.values = values
        self.hints = list(hints)      # labels being replayed (a harness may need the call-site part of a label)
        self.records = []
        self.observed = []
        self.notes = {}
        self.valid = True

    def int(self, name, bits=64):
        return int(self.values[name]) & ((1 << bits) - 1)

    def bool(self, name):
        return bool(self.int(name, 1))

    def bytes(self, name, n):
        b = bytes.fromhex(self.values[name])
        assert len(b) == n, (name, len(b), n)
        return b

    def choice(self, name, k):
        v = self.int(name, max(1, (k - 1).bit_length()))
        if v >= k:
            raise Abort('choice out of range')
        return v

    def assume(self, cond):
        if not cond:
            self.valid = False
            raise Abort('assumption violated by concrete values')

    def check(self, label, cond, detail=None):
        ok = bool(cond)
        self.records.append((label, 'ok' if ok else 'viol', None, detail))
        return ok

    def fail(self, label, detail=None):
        return self.check(label, False, detail)

    def reach(self, label='reach'):
        self.records.append((label, 'reached', None))

    def observe(self, name, value):
        self.observed.append([name, concretize_plain(value)])

    def template(self, s):
        return [s]

    def must(self, cond):
        return bool(cond)


def concretize_plain(value):
    if isinstance(value, (bytes, bytearray)):
        return bytes(value).hex()
    if isinstance(value, (list, tuple)):
        return [concretize_plain(v) for v in value]
    if isinstance(value, dict):
        return {str(k): concretize_plain(v) for k, v in value.items()}
    if value is None or isinstance(value, (int, float, bool, str)):
        return value
    return repr(value)


def run_concrete(fn, structure, values, hints=()):
    """-> dict(valid, failed labels, observed, error)"""
    set_engine(None)
    ctx = ConcreteCtx(values, hints)
    err = None
    try:
        fn(ctx, structure)
    except Abort as e:
        err = 'abort: %s' % e
    except (Unsupported, Budget) as e:
        err = '%s: %s' % (type(e).__name__, e)
    except Exception as e:           # an uncaught exception of the harness itself
        err = 'uncaught %s: %s\n%s' % (type(e).__name__, e, traceback.format_exc(limit=8))
    return {
        'valid': ctx.valid,
        'failed': sorted({r[0] for r in ctx.records if r[1] == 'viol'}),
        'details': {r[0]: r[3] for r in ctx.records if r[1] == 'viol' and r[3] is not None},
        'observed': ctx.observed,
        'error': err,
    }


class Profile:
    """collects the /repo code objects executed (functions_encoded)"""

    def __init__(self):
        self.names = set()

    def __call__(self, frame, event, arg):
        if event == 'call':
            co = frame.f_code
            fn = co.co_filename
            if fn.startswith(REPO_PREFIX):
                self.names.add('%s:%s' % (fn[len(REPO_PREFIX):], co.co_qualname))


BEFORE_PATH = []     # callables run before every execution of the harness (e.g. bring process-level state back)


def explore(fn, structure, max_paths=100000, max_seconds=600.0, sample_every=97, seed=0, exact_width=False,
            hash_collide=False, cross_every=0):
    """Explore all paths of fn(ctx, structure).  Returns a JSON-able summary."""
    en = Engine()
    en.exact_width = exact_width
    en.hash_collide = hash_collide
    en.cross_every = cross_every
    set_engine(en)
    t0 = time.time()
    labels = {}          # label -> {'ok': n, 'viol': n, 'reached': n}
    violations = {}      # label -> first {'values':..., 'detail':...}
    nviol = {}
    paths = aborted = nontrivial = 0
    samples = []
    replay_samples = []
    status = 'complete'
    reason = None
    prof = Profile()
    functions = set()
    maxforks = 0
    n_unsupported = 0
    fallback = []
    try:
        while True:
            en.start()
            for hook in BEFORE_PATH:
                hook()
            ctx = SymCtx(en)
            if paths == 0:
                sys.setprofile(prof)
            try:
                try:
                    fn(ctx, structure)
                    outcome = 'ok'
                finally:
                    if paths == 0:
                        sys.setprofile(None)
                        functions = set(prof.names)
            except Abort:
                outcome = 'abort'
            except Unsupported as e:
                # the engine cannot carry this path: the structure is inconclusive, but exploration goes on (other
                # paths may still expose a violation) and the current path condition's model is kept as a concrete
                # sample to be run on the real code (concolic fallback)
                n_unsupported += 1
                if reason is None:
                    reason = 'Unsupported: %s\n%s' % (e, _where())
                    import os
                    if os.environ.get('VX_DEBUG'):
                        traceback.print_exc()
                status = 'unsupported'
                if len(fallback) < 12:
                    try:
                        m = en.model()
                        if m is not None:
                            fallback.append(ctx.values_of(m))
                    except BaseException:       # noqa
                        pass
                paths += 1
                if n_unsupported >= 40 or not en.advance():
                    break
                continue
            except Budget as e:
                status, reason = 'unsupported', 'Budget escaped the harness: %s' % e
                break
            except Divergence as e:
                status, reason = 'harness-error', 're-execution diverged: %s\n%s' % (e, traceback.format_exc(limit=12))
                break
            except Exception as e:
                status = 'harness-error'
                reason = 'uncaught %s: %s\n%s' % (type(e).__name__, e, traceback.format_exc(limit=12))
                break
            paths += 1
            if outcome == 'abort':
                aborted += 1
            else:
                had_ob = False
                for rec in ctx.records:
                    label, st = rec[0], rec[1]
                    d = labels.setdefault(label, {'ok': 0, 'viol': 0, 'reached': 0})
                    d[st] += 1
                    if st in ('ok', 'viol'):
                        had_ob = True
                    if st == 'viol':
                        nviol[label] = nviol.get(label, 0) + 1
                        if label not in violations:
                            violations[label] = {'values': rec[2], 'detail': concretize_plain(rec[3])}
                if had_ob and en.forks_on_path > 0:
                    nontrivial += 1
                maxforks = max(maxforks, en.forks_on_path)
                want_sample = len(samples) < 3
                want_replay = ((paths + seed) % sample_every == 0 or paths == 1) and len(replay_samples) < 8
                if want_sample or want_replay:
                    m = en.model()
                    if m is not None:
                        vals = ctx.values_of(m)
                        obs = ctx.instantiate_observed(m)
                        if want_sample:
                            samples.append({'path': paths, 'decisions': en.forks_on_path,
                                            'pc_terms': len(en.pc), 'inputs': _short(vals),
                                            'observed': _short(obs),
                                            'obligations': [r[0] for r in ctx.records if r[1] != 'reached'][:12]})
                        if want_replay:
                            replay_samples.append({'values': vals, 'observed': obs})
            if not en.advance():
                break
            if en.sampled and status == 'complete':
                status, reason = 'incomplete', 'a symbolic value with an unbounded domain was concretised by sampling: ' + en.sampled
            if paths >= max_paths:
                status, reason = 'incomplete', 'path budget %d exhausted' % max_paths
                break
            if time.time() - t0 > max_seconds:
                status, reason = 'incomplete', 'time budget %.0fs exhausted after %d paths' % (max_seconds, paths)
                break
    finally:
        sys.setprofile(None)
        set_engine(None)
    if en.sampled and status == 'complete':
        status, reason = 'incomplete', 'a symbolic value with an unbounded domain was concretised by sampling: ' + en.sampled
    return {
        'structure': structure, 'status': status, 'reason': reason,
        'paths': paths, 'aborted': aborted, 'nontrivial': nontrivial, 'max_decisions': maxforks,
        'labels': labels, 'violations': violations, 'nviol': nviol,
        'feas_queries': en.n_feas, 'prop_queries': en.n_prop, 'solver_s': round(en.solver_s, 3),
        'wall_s': round(time.time() - t0, 3),
        'samples': samples, 'replay_samples': replay_samples, 'functions': sorted(functions),
        'fallback_samples': fallback, 'unsupported_paths': n_unsupported, 'cross': en.cross,
    }


def _short(x, n=200):
    if isinstance(x, dict):
        return {k: _short(v, n) for k, v in list(x.items())[:24]}
    if isinstance(x, list):
        return [_short(v, n) for v in x[:24]]
    if isinstance(x, str) and len(x) > n:
        return x[:n] + '...'
    return x


def _where():
    tb = traceback.extract_tb(sys.exc_info()[2])
    lines = []
    for fr in tb:
        if fr.filename.startswith(REPO_PREFIX) or '/checks/' in fr.filename:
            lines.append('  %s:%d %s' % (fr.filename, fr.lineno, fr.name))
    return '\n'.join(lines[-6:])
