"""Proxy values: SymInt, SymBool, SymBytes, atoms / AtomStr (rendered symbolic values)."""
import re
import z3

from .core import W, MAXDOM, Unsupported, Abort, eng, as_bool

MAXMAG = W - 2


def signed(v, bits=W):
    return v - (1 << bits) if v >= 1 << (bits - 1) else v


# ------------------------------------------------------------------------------------------ ints
def lift(v):
    """-> (z3 BV term, mag, nonneg) or None"""
    if isinstance(v, SymInt):
        return v.e, v.mag, v.nonneg
    if isinstance(v, SymBool):
        return z3.If(v.e, z3.BitVecVal(1, W), z3.BitVecVal(0, W)), 1, True
    if isinstance(v, bool):
        v = int(v)
    if isinstance(v, int):
        if type(v) is not int:
            hook = getattr(v, '_sx_on_use', None)      # host constants (C18) record that they were consulted
            if hook is not None:
                hook()
        if v.bit_length() > MAXMAG:
            raise Unsupported('constant exceeds the %d-bit integer model' % W)
        return z3.BitVecVal(v, W), v.bit_length(), v >= 0
    return None


def mk(e, mag, nonneg):
    if mag > MAXMAG:
        raise Unsupported('integer magnitude may exceed the %d-bit model' % W)
    e = z3.simplify(e)
    if z3.is_bv_value(e):
        return signed(e.as_long())
    return SymInt(e, mag, nonneg)


def mkb(e):
    e = z3.simplify(e)
    if z3.is_true(e):
        return True
    if z3.is_false(e):
        return False
    return SymBool(e)


class SymBool:
    __slots__ = ('e',)

    def __init__(self, e):
        self.e = e

    def __bool__(self):
        return eng().branch(self.e)

    def __hash__(self):
        return hash(bool(self))

    def __eq__(self, o):
        b = _bterm(o)
        if b is None:
            return NotImplemented
        return mkb(self.e == b)

    def __ne__(self, o):
        b = _bterm(o)
        if b is None:
            return NotImplemented
        return mkb(self.e != b)

    def __and__(self, o):
        b = _bterm(o)
        return NotImplemented if b is None else mkb(z3.And(self.e, b))
    __rand__ = __and__

    def __or__(self, o):
        b = _bterm(o)
        return NotImplemented if b is None else mkb(z3.Or(self.e, b))
    __ror__ = __or__

    def __invert__(self):
        return mkb(z3.Not(self.e))

    def __str__(self):
        return 'True' if bool(self) else 'False'
    __repr__ = __str__

    def __format__(self, spec):
        return format(bool(self), spec)


def _bterm(o):
    if isinstance(o, SymBool):
        return o.e
    if isinstance(o, bool):
        return z3.BoolVal(o)
    return None


def And(*xs):
    ts = []
    for x in xs:
        b = as_bool(x)
        if b is False:
            return False
        if b is True:
            continue
        ts.append(b)
    if not ts:
        return True
    return mkb(z3.And(*ts) if len(ts) > 1 else ts[0])


def Or(*xs):
    ts = []
    for x in xs:
        b = as_bool(x)
        if b is True:
            return True
        if b is False:
            continue
        ts.append(b)
    if not ts:
        return False
    return mkb(z3.Or(*ts) if len(ts) > 1 else ts[0])


def Not(x):
    b = as_bool(x)
    if b is True:
        return False
    if b is False:
        return True
    return mkb(z3.Not(b))


def Implies(a, b):
    return Or(Not(a), b)


def Ite(c, a, b):
    """if-then-else on ints"""
    c = as_bool(c)
    if c is True:
        return a
    if c is False:
        return b
    la, lb = lift(a), lift(b)
    return mk(z3.If(c, la[0], lb[0]), max(la[1], lb[1]), la[2] and lb[2])


class SymInt:
    __slots__ = ('e', 'mag', 'nonneg')

    def __init__(self, e, mag=64, nonneg=True):
        self.e = e
        self.mag = mag
        self.nonneg = nonneg

    # ---- arithmetic
    def __and__(self, o):
        b = lift(o)
        if b is None:
            return NotImplemented
        if self.nonneg and b[2]:
            mag = min(self.mag, b[1])
        elif self.nonneg:
            mag = self.mag
        elif b[2]:
            mag = b[1]
        else:
            mag = max(self.mag, b[1]) + 1
        return mk(self.e & b[0], mag, self.nonneg or b[2])
    __rand__ = __and__

    def __or__(self, o):
        b = lift(o)
        if b is None:
            return NotImplemented
        return mk(self.e | b[0], max(self.mag, b[1]) + 1, self.nonneg and b[2])
    __ror__ = __or__

    def __xor__(self, o):
        b = lift(o)
        if b is None:
            return NotImplemented
        return mk(self.e ^ b[0], max(self.mag, b[1]) + 1, self.nonneg and b[2])
    __rxor__ = __xor__

    def __add__(self, o):
        b = lift(o)
        if b is None:
            return NotImplemented
        return mk(self.e + b[0], max(self.mag, b[1]) + 1, self.nonneg and b[2])
    __radd__ = __add__

    def __sub__(self, o):
        b = lift(o)
        if b is None:
            return NotImplemented
        return mk(self.e - b[0], max(self.mag, b[1]) + 1, False)

    def __rsub__(self, o):
        b = lift(o)
        if b is None:
            return NotImplemented
        return mk(b[0] - self.e, max(self.mag, b[1]) + 1, False)

    def __mul__(self, o):
        b = lift(o)
        if b is None:
            return NotImplemented
        return mk(self.e * b[0], self.mag + b[1], self.nonneg and b[2])
    __rmul__ = __mul__

    def __lshift__(self, o):
        if isinstance(o, SymInt):
            raise Unsupported('shift by a symbolic amount')
        if not isinstance(o, int) or o < 0:
            return NotImplemented
        return mk(self.e << o, self.mag + o, self.nonneg)

    def __rshift__(self, o):
        if isinstance(o, SymInt):
            raise Unsupported('shift by a symbolic amount')
        if not isinstance(o, int) or o < 0:
            return NotImplemented
        return mk(self.e >> o, max(self.mag - o, 1), self.nonneg)   # arithmetic shift = Python semantics

    def __rlshift__(self, o):
        raise Unsupported('shift by a symbolic amount')
    __rrshift__ = __rlshift__

    def _divmod_ok(self, o):
        if not isinstance(o, int) or isinstance(o, bool) or o <= 0 or not self.nonneg:
            raise Unsupported('// or % outside (non-negative symbolic) by (positive constant)')

    def __floordiv__(self, o):
        self._divmod_ok(o)
        return mk(z3.UDiv(self.e, z3.BitVecVal(o, W)), self.mag, True)

    def __mod__(self, o):
        self._divmod_ok(o)
        return mk(z3.URem(self.e, z3.BitVecVal(o, W)), min(self.mag, o.bit_length()), True)

    def __divmod__(self, o):
        return self // o, self % o

    def __truediv__(self, o):
        raise Unsupported('true division of a symbolic int (float)')
    __rtruediv__ = __truediv__
    __rfloordiv__ = __truediv__
    __rmod__ = __truediv__
    __pow__ = __truediv__
    __rpow__ = __truediv__

    def __float__(self):
        raise Unsupported('float() of a symbolic int')

    def __neg__(self):
        return mk(-self.e, self.mag, False)

    def __pos__(self):
        return self

    def __abs__(self):
        return mk(z3.If(self.e < 0, -self.e, self.e), self.mag, True)

    def __invert__(self):
        return mk(~self.e, self.mag + 1, False)

    # ---- comparisons
    def _cmp(self, o, f):
        b = lift(o)
        if b is None:
            return NotImplemented
        return mkb(f(self.e, b[0]))

    def __eq__(self, o): return self._cmp(o, lambda a, b: a == b)
    def __ne__(self, o): return self._cmp(o, lambda a, b: a != b)
    def __lt__(self, o): return self._cmp(o, lambda a, b: a < b)
    def __le__(self, o): return self._cmp(o, lambda a, b: a <= b)
    def __gt__(self, o): return self._cmp(o, lambda a, b: a > b)
    def __ge__(self, o): return self._cmp(o, lambda a, b: a >= b)

    def __bool__(self):
        return eng().branch(self.e != 0)

    # ---- concretisation
    def concretize(self, why=''):
        # more than MAXDOM values: continues with a few of them (under-approximation).  The run is then marked
        # incomplete - it can still find a (replayed) counterexample but can no longer conclude 'holds'.
        return signed(eng().choose_concrete(self.e, why))

    def __hash__(self):
        en = eng()
        if en.hash_collide:
            # a value the path condition pins to one constant hashes as that constant (dicts with plain int keys keep
            # working); every other symbolic int hashes alike, so that dict lookup falls back to solver-decided ==
            m = en.ensure_model()
            v = m.eval(self.e, model_completion=True)
            if not en.feasible(self.e != v):
                return hash(signed(v.as_long()))
            return 0x5eed
        return hash(self.concretize('hash'))

    def __index__(self):
        return self.concretize('index')

    def __int__(self):
        return self.concretize('int')

    # ---- rendering
    def __format__(self, spec):
        if spec in ('', 'd'):
            return make_atom('d', self)
        return make_atom('fmt', self, spec=spec)

    def __str__(self):
        return make_atom('d', self)

    __repr__ = __str__

    def bit_length(self):
        raise Unsupported('bit_length of a symbolic int')

    def to_bytes(self, length=1, byteorder='big', *, signed=False):
        items = [z3.Extract(8 * i + 7, 8 * i, self.e) for i in range(length)]
        if byteorder == 'big':
            items.reverse()
        return SymBytes.make([_simp8(i) for i in items])


def _simp8(e):
    e = z3.simplify(e)
    return e.as_long() if z3.is_bv_value(e) else e


def var(name, bits=64):
    """fresh unsigned input of the given width, as a z3 term (W bits)"""
    return z3.ZeroExt(W - bits, z3.BitVec(name, bits))


def symint(name, bits=64):
    return SymInt(var(name, bits), bits, True)


def term(x):
    """z3 term of an int / SymInt"""
    l = lift(x)
    if l is None:
        raise TypeError('not an int-like value: %r' % type(x))
    return l[0]


# ----------------------------------------------------------------------------------------- atoms
HEAD0 = 0xF0000          # plane-15 private use: head character of atom i is chr(HEAD0 + i)
HEADMAX = 0xFFFFD
CONT = '\ue001'          # continuation (fills the placeholder up to an exact rendering width)


class Atom:
    __slots__ = ('kind', 'term', 'spec', 'extra', 'width', 'index')

    def __init__(self, kind, term, spec='', extra=None, width=None):
        self.kind = kind      # 'd' | 'x' | 'fmt' | 'chr' | 'lookup' | 'bytes' | 'join'
        self.term = term      # z3 BV (int kinds) | list of byte items ('bytes') | list of (guard, str) ('join')
        self.spec = spec
        self.extra = extra
        self.width = width    # exact rendering width or None (variable / unknown)

    def is_numeric(self):
        return self.kind in ('d', 'x', 'fmt')

    def render(self, model):
        """concrete text of this atom under a z3 model"""
        if self.kind in ('d', 'x', 'fmt', 'chr', 'lookup'):
            v = signed(model.eval(self.term, model_completion=True).as_long())
            if self.kind == 'd':
                return str(v)
            if self.kind == 'x':
                return hex(v)
            if self.kind == 'fmt':
                return format(v, self.spec)
            if self.kind == 'chr':
                return chr(v)
            return str(self.extra[v])
        if self.kind == 'bytes':
            return bytes(eval_item(model, it) for it in self.term).decode()
        if self.kind == 'bytesrepr':
            return repr(bytes(eval_item(model, it) for it in self.term))
        if self.kind == 'join':
            sep, parts = self.extra, self.term
            return sep.join(s for g, s in parts if g is True or (g is not False and z3.is_true(
                model.eval(g, model_completion=True))))
        raise AssertionError(self.kind)

    def describe(self):
        if self.kind == 'bytes':
            return '<bytes:%d>' % len(self.term)
        if self.kind == 'join':
            return '<join:%s>' % '|'.join(s for _, s in self.term)
        t = self.term.sexpr() if hasattr(self.term, 'sexpr') else str(self.term)
        if len(t) > 120:
            t = t[:117] + '...'
        return '<%s%s %s>' % (self.kind, (':' + self.spec) if self.spec else '', t)


def eval_item(model, it):
    if isinstance(it, int):
        return it
    return model.eval(it, model_completion=True).as_long()


class AtomStr(str):
    """str holding exactly one atom placeholder.  Comparisons with other strings are decided
    symbolically where that is meaningful, everything else stays real str behaviour."""
    __slots__ = ('atom',)

    def __eq__(self, o):
        r = atomstr_eq(self, o)
        return r

    def __ne__(self, o):
        r = atomstr_eq(self, o)
        if r is NotImplemented:
            return r
        return Not(r)

    def __hash__(self):
        raise Unsupported('hash of a rendered symbolic value (used as dict key / set member)')

    def _nosup(self, *a, **k):
        raise Unsupported('string operation on a rendered symbolic value')

    split = rsplit = strip = lstrip = rstrip = partition = rpartition = splitlines = _nosup
    startswith = endswith = find = rfind = index = rindex = replace = _nosup
    upper = lower = title = capitalize = casefold = swapcase = zfill = _nosup
    __getitem__ = _nosup
    __iter__ = _nosup
    __contains__ = _nosup
    __lt__ = __le__ = __gt__ = __ge__ = _nosup

    def encode(self, *a, **k):
        raise Unsupported('encode of a rendered symbolic value')



_CANON_DEC = re.compile(r'^(0|-?[1-9][0-9]*)$')
_CANON_HEX = re.compile(r'^-?0x(0|[1-9a-f][0-9a-f]*)$')


def atomstr_eq(a, o):
    at = a.atom
    if isinstance(o, AtomStr):
        bt = o.atom
        if at.kind == bt.kind and at.spec == bt.spec and at.kind in ('d', 'x', 'chr'):
            return mkb(at.term == bt.term)
        if at.kind == bt.kind == 'bytes':
            return bytes_items_eq(at.term, bt.term)
        if {at.kind, bt.kind} == {'d', 'x'}:
            # decimal vs hex rendering coincide only for 0..9?  hex always has the 0x prefix: never equal
            return False
        raise Unsupported('comparison of rendered symbolic values of kinds %s/%s' % (at.kind, bt.kind))
    if isinstance(o, str):
        if any(ord(c) >= 0xE000 for c in o):
            raise Unsupported('comparison of a rendered symbolic value with a composite template')
        if at.kind == 'd':
            if not _CANON_DEC.match(o):
                return False
            return mkb(at.term == z3.BitVecVal(int(o), W))
        if at.kind == 'x':
            if not _CANON_HEX.match(o):
                return False
            return mkb(at.term == z3.BitVecVal(int(o, 16), W))
        if at.kind == 'chr':
            if len(o) != 1:
                return False
            return mkb(at.term == z3.BitVecVal(ord(o), W))
        if at.kind == 'bytes':
            try:
                ob = o.encode('ascii')
            except UnicodeEncodeError:
                return False
            return bytes_items_eq(at.term, list(ob))
        raise Unsupported('comparison of a rendered symbolic value (%s) with a string' % at.kind)
    return NotImplemented


def bytes_items_eq(xs, ys):
    if len(xs) != len(ys):
        return False
    conds = []
    for a, b in zip(xs, ys):
        if isinstance(a, int) and isinstance(b, int):
            if a != b:
                return False
            continue
        a = z3.BitVecVal(a, 8) if isinstance(a, int) else a
        b = z3.BitVecVal(b, 8) if isinstance(b, int) else b
        conds.append(a == b)
    if not conds:
        return True
    return mkb(z3.And(*conds) if len(conds) > 1 else conds[0])


def make_atom(kind, value, spec='', extra=None):
    en = eng()
    if isinstance(value, SymInt):
        t = value.e
    else:
        t = value
    # the same value rendered the same way twice gives the same placeholder (so that composed strings that are
    # equal text are equal str objects as well)
    if kind in ('d', 'x', 'fmt', 'chr', 'lookup'):
        key = (kind, spec, t.get_id(), id(extra) if extra is not None else 0)
    elif kind in ('bytes', 'bytesrepr'):
        key = (kind, tuple(it if isinstance(it, int) else ('t', it.get_id()) for it in t))
    else:
        key = None
    cache = getattr(en, 'atom_cache', None)
    if cache is None or getattr(en, 'atom_cache_owner', None) is not en.atoms:
        cache = en.atom_cache = {}
        en.atom_cache_owner = en.atoms
    if key is not None and key in cache:
        return cache[key]
    width = None
    if en.exact_width and kind in ('d', 'x', 'fmt'):
        width = _exact_width(en, kind, t, spec)
    elif en.exact_width and kind == 'bytes' and len(t) > 0:
        width = len(t)          # ASCII text: one character per byte
    at = Atom(kind, t, spec, extra, width)
    at.index = len(en.atoms)
    if HEAD0 + at.index > HEADMAX:
        raise Unsupported('too many rendered symbolic values on one path')
    en.atoms.append(at)
    s = AtomStr(chr(HEAD0 + at.index) + CONT * ((width or 1) - 1))
    s.atom = at
    if key is not None:
        cache[key] = s
    return s


def _render_int(kind, v, spec):
    if kind == 'd':
        return str(v)
    if kind == 'x':
        return hex(v)
    return format(v, spec)


def _exact_width(en, kind, t, spec):
    """If every value of t allowed by pc renders with the same length, that length; else None.
    Rendering length is monotone in |v| on each sign, so the set of values with the length of one
    model value is an interval whose ends are found by bisection on the real format()."""
    m = en.model()
    if m is None:
        raise Abort('infeasible')
    v0 = signed(m.eval(t, model_completion=True).as_long())
    L = len(_render_int(kind, v0, spec))
    top = (1 << (W - 2))
    if v0 >= 0:
        lo, hi = _mono_range(lambda v: len(_render_int(kind, v, spec)), L, 0, top)
    else:
        a, b = _mono_range(lambda v: len(_render_int(kind, -v, spec)), L, 1, top)
        lo, hi = -b, -a
    ok = en.must(z3.And(t >= z3.BitVecVal(lo, W), t <= z3.BitVecVal(hi, W)))
    return L if ok else None


def _mono_range(f, L, lo0, hi0):
    """f non-decreasing on [lo0, hi0]; returns (min v, max v) with f(v) == L (assumes one exists)."""
    a, b = lo0, hi0
    while a < b:                      # first v with f(v) >= L
        mid = (a + b) // 2
        if f(mid) >= L:
            b = mid
        else:
            a = mid + 1
    first = a
    a, b = first, hi0
    while a < b:                      # last v with f(v) <= L
        mid = (a + b + 1) // 2
        if f(mid) <= L:
            a = mid
        else:
            b = mid - 1
    return first, a


def parse_template(s, atoms):
    """str with placeholders -> list of pieces (str | Atom)"""
    out = []
    buf = []
    i, n = 0, len(s)
    while i < n:
        c = s[i]
        o = ord(c)
        if HEAD0 <= o <= HEADMAX:
            if buf:
                out.append(''.join(buf)); buf = []
            at = atoms[o - HEAD0]
            i += 1
            k = 1
            while i < n and s[i] == CONT:
                i += 1; k += 1
            if at.width is not None and k != at.width:
                raise Unsupported('a rendered symbolic value was cut or padded inside its placeholder')
            out.append(at)
        elif c == CONT:
            raise Unsupported('dangling placeholder continuation (a rendered value was sliced)')
        else:
            buf.append(c); i += 1
    if buf:
        out.append(''.join(buf))
    return out


def has_atoms(s):
    if isinstance(s, AtomStr):
        return True
    return any(HEAD0 <= ord(c) <= HEADMAX or c == CONT for c in s)


def render_template(pieces, model):
    return ''.join(p if isinstance(p, str) else p.render(model) for p in pieces)


def describe_template(pieces):
    return ''.join(p if isinstance(p, str) else p.describe() for p in pieces)


# ----------------------------------------------------------------------------------------- bytes
class SymBytes:
    """bytes of concrete length; items are ints 0..255 or 8-bit z3 terms"""
    __slots__ = ('items',)

    def __init__(self, items):
        self.items = list(items)

    @staticmethod
    def make(items):
        items = list(items)
        if all(isinstance(i, int) for i in items):
            return bytes(items)
        return SymBytes(items)

    @staticmethod
    def fresh(name, n):
        return SymBytes([z3.BitVec('%s_%d' % (name, i), 8) for i in range(n)])

    def __len__(self):
        return len(self.items)

    def __getitem__(self, i):
        if isinstance(i, slice):
            return SymBytes.make(self.items[i])
        if isinstance(i, SymInt):
            i = i.__index__()
        it = self.items[i]
        return it if isinstance(it, int) else SymInt(z3.ZeroExt(W - 8, it), 8, True)

    def __add__(self, o):
        if isinstance(o, (bytes, bytearray)):
            return SymBytes.make(self.items + list(o))
        if isinstance(o, SymBytes):
            return SymBytes.make(self.items + o.items)
        return NotImplemented

    def __radd__(self, o):
        if isinstance(o, (bytes, bytearray)):
            return SymBytes.make(list(o) + self.items)
        return NotImplemented

    def __mul__(self, n):
        return SymBytes.make(self.items * n)

    def __eq__(self, o):
        if isinstance(o, (bytes, bytearray)):
            o = SymBytes(list(o))
        if not isinstance(o, SymBytes):
            return NotImplemented
        return bytes_items_eq(self.items, o.items)

    def __ne__(self, o):
        r = self.__eq__(o)
        return r if r is NotImplemented else Not(r)

    def __hash__(self):
        raise Unsupported('hash of symbolic bytes')

    def __bool__(self):
        return len(self.items) > 0

    def __iter__(self):
        for i in range(len(self.items)):
            yield self[i]

    def __bytes__(self):
        raise Unsupported('symbolic bytes reached a C boundary (bytes())')

    def __repr__(self):
        return make_atom('bytesrepr', list(self.items))
    __str__ = __repr__

    def replace(self, old, new, count=-1):
        if not (old == b'\x00' and new == b'' and count == -1):
            raise Unsupported('bytes.replace other than NUL stripping')
        en = eng()
        out = []
        for it in self.items:
            if isinstance(it, int):
                if it != 0:
                    out.append(it)
            elif not en.branch(it == 0):
                out.append(it)
        return SymBytes.make(out)

    def decode(self, encoding='utf-8', errors='strict'):
        if encoding.lower().replace('-', '').replace('_', '') not in ('utf8', 'ascii'):
            raise Unsupported('decode with encoding ' + encoding)
        en = eng()
        sym = [it for it in self.items if not isinstance(it, int)]
        if any(isinstance(it, int) and it >= 0x80 for it in self.items):
            raise Unsupported('decode of non-ASCII bytes next to symbolic ones')
        if sym and en.branch(z3.Or(*[z3.UGE(it, 0x80) for it in sym]) if len(sym) > 1 else z3.UGE(sym[0], 0x80)):
            raise Unsupported('decode of possibly non-ASCII symbolic bytes (harness must bound them < 0x80)')
        return make_atom('bytes', list(self.items))

    _WS = (0x09, 0x0a, 0x0b, 0x0c, 0x0d, 0x20)

    def _in(self, it, values):
        if isinstance(it, int):
            return it in values
        return eng().branch(z3.Or(*[it == v for v in values]))

    def _strip(self, chars, left, right):
        vals = self._WS if chars is None else tuple(bytes(chars))
        items = list(self.items)
        if left:
            while items and self._in(items[0], vals):
                items.pop(0)
        if right:
            while items and self._in(items[-1], vals):
                items.pop()
        return SymBytes.make(items)

    def strip(self, chars=None):
        return self._strip(chars, True, True)

    def lstrip(self, chars=None):
        return self._strip(chars, True, False)

    def rstrip(self, chars=None):
        return self._strip(chars, False, True)

    def find(self, sub, start=0, end=None):
        if isinstance(sub, int):
            sub = bytes([sub])
        sub = bytes(sub)
        items = self.items[start:end]
        n = len(sub)
        if n == 0:
            return start
        for i in range(len(items) - n + 1):
            conds = []
            ok = True
            for a, b in zip(items[i:i + n], sub):
                if isinstance(a, int):
                    if a != b:
                        ok = False
                        break
                else:
                    conds.append(a == b)
            if not ok:
                continue
            if not conds or eng().branch(z3.And(*conds) if len(conds) > 1 else conds[0]):
                return start + i
        return -1

    def index(self, sub, start=0, end=None):
        r = self.find(sub, start, end)
        if r < 0:
            raise ValueError('subsection not found')
        return r

    def __contains__(self, x):
        if isinstance(x, (bytes, bytearray)):
            return self.find(x) >= 0
        if isinstance(x, SymInt):
            return bool(Or(*[(x == (it if isinstance(it, int) else SymInt(z3.ZeroExt(W - 8, it), 8, True))) for it in self.items]))
        return self.find(bytes([x])) >= 0

    def startswith(self, prefix):
        prefix = bytes(prefix)
        return len(prefix) <= len(self.items) and bool(SymBytes.make(self.items[:len(prefix)]) == prefix)

    def endswith(self, suffix):
        suffix = bytes(suffix)
        return len(suffix) <= len(self.items) and (len(suffix) == 0 or bool(SymBytes.make(self.items[-len(suffix):]) == suffix))

    def translate(self, table, delete=b''):
        if table is not None:
            raise Unsupported('bytes.translate with a table on symbolic bytes')
        vals = tuple(bytes(delete))
        return SymBytes.make([it for it in self.items if not self._in(it, vals)]) if vals else self

    def split(self, sep=None, maxsplit=-1):
        if sep is None or maxsplit != -1 or len(bytes(sep)) != 1:
            raise Unsupported('bytes.split other than by one separator byte')
        s = bytes(sep)[0]
        out, cur = [], []
        for it in self.items:
            if self._in(it, (s,)):
                out.append(SymBytes.make(cur)); cur = []
            else:
                cur.append(it)
        out.append(SymBytes.make(cur))
        return out

    def count(self, sub):
        raise Unsupported('bytes.count on symbolic bytes')

    def _nosup(self, *a, **k):
        raise Unsupported('bytes operation on symbolic bytes')

    rsplit = rfind = rindex = _nosup
    partition = rpartition = hex = _nosup


def word_from_items(items, big=False, sign=False):
    """little/big-endian integer from byte items -> int or SymInt"""
    n = len(items)
    if all(isinstance(i, int) for i in items):
        return int.from_bytes(bytes(items), 'big' if big else 'little', signed=sign)
    bvs = [z3.BitVecVal(i, 8) if isinstance(i, int) else i for i in items]
    if not big:
        bvs = bvs[::-1]
    e = z3.Concat(*bvs) if n > 1 else bvs[0]
    if sign:
        return mk(z3.SignExt(W - 8 * n, e), 8 * n, False)
    return mk(z3.ZeroExt(W - 8 * n, e), 8 * n, True)


def items_from_word(x, n, big=False):
    """n byte items of int / SymInt (two's complement), little endian unless big"""
    if isinstance(x, SymInt):
        items = [_simp8(z3.Extract(8 * i + 7, 8 * i, x.e)) for i in range(n)]
    else:
        items = list((x & ((1 << (8 * n)) - 1)).to_bytes(n, 'little'))
    if big:
        items.reverse()
    return items
