"""Mapping / sequence proxies: SymMap (assoc list with symbolic keys), SymTable (concrete dict
probed with symbolic keys), GuardedList (list with symbolic membership)."""
import z3

from .core import Unsupported, eng, W
from .values import SymInt, SymBool, AtomStr, mkb, make_atom, lift, Or, And, Not, as_bool

_MISSING = object()


def key_eq(a, b):
    """equality of two keys -> bool | SymBool  (ints / SymInts / anything else by ==)"""
    if a is b:
        return True
    r = (a == b)
    if r is NotImplemented:
        return False
    return r


class SymMap:
    """dict replacement whose keys may be symbolic.  Association list; lookups fork on key
    equality (newest binding of a key is kept in place, as dict does).  Keeps a write log."""

    def __init__(self, init=(), name='map'):
        self.pairs = []
        self.name = name
        self.log = []           # ('set', k, v) | ('del', k) | ('clear',)
        self.writer = None      # set by harnesses to tag log entries
        if hasattr(init, 'items'):
            init = init.items()
        for k, v in init:
            self._set(k, v)

    def _find(self, k):
        for i, (kk, _) in enumerate(self.pairs):
            if bool(key_eq(kk, k)):
                return i
        return -1

    def _set(self, k, v):
        i = self._find(k)
        if i < 0:
            self.pairs.append((k, v))
        else:
            self.pairs[i] = (self.pairs[i][0], v)

    def __contains__(self, k):
        return self._find(k) >= 0

    def __getitem__(self, k):
        i = self._find(k)
        if i < 0:
            raise KeyError(k)
        return self.pairs[i][1]

    def get(self, k, d=None):
        i = self._find(k)
        return d if i < 0 else self.pairs[i][1]

    def __setitem__(self, k, v):
        self.log.append(('set', k, v, self.writer))
        self._set(k, v)

    def pop(self, k, d=_MISSING):
        i = self._find(k)
        if i < 0:
            if d is not _MISSING:
                return d
            raise KeyError(k)
        self.log.append(('del', k, None, self.writer))
        return self.pairs.pop(i)[1]

    def __delitem__(self, k):
        self.pop(k)

    def setdefault(self, k, d=None):
        i = self._find(k)
        if i < 0:
            self.log.append(('set', k, d, self.writer))
            self.pairs.append((k, d))
            return d
        return self.pairs[i][1]

    def clear(self):
        self.log.append(('clear', None, None, self.writer))
        self.pairs.clear()

    def update(self, o=(), **kw):
        if hasattr(o, 'items'):
            o = o.items()
        for k, v in o:
            self[k] = v
        for k, v in kw.items():
            self[k] = v

    def __len__(self):
        return len(self.pairs)

    def __iter__(self):
        return iter([k for k, _ in self.pairs])

    def keys(self):
        return [k for k, _ in self.pairs]

    def values(self):
        return [v for _, v in self.pairs]

    def items(self):
        return list(self.pairs)

    def __bool__(self):
        return bool(self.pairs)

    def copy(self):
        m = SymMap(name=self.name)
        m.pairs = list(self.pairs)
        return m

    def __repr__(self):
        return 'SymMap(%s, %d entries)' % (self.name, len(self.pairs))

    # ---- specification side: symbolic lookup without forking
    def lookup_term(self, k, default):
        """value bound to k as an if-then-else chain (ints only), newest-wins already resolved"""
        from .values import Ite
        r = default
        for kk, v in reversed(self.pairs):
            r = Ite(key_eq(kk, k), v, r)
        return r


class HavocMap(SymMap):
    """A table in an ARBITRARY pre-state (one step from any reachable or unreachable state of the parser tables).  The first
    lookup of each distinct key decides - by a fork on a harness-declared Boolean - whether the pre-state binds that key, and
    to which harness-declared value; later lookups of an equal key agree with that decision.  Writes behave as in SymMap.
    Enumerating the table is not supported (its size is unknown).  `initial` records the part of the pre-state the run
    consulted, so that a concrete run can be repeated on a real dict holding exactly those entries."""

    def __init__(self, slots, name='map'):
        SymMap.__init__(self, name=name)
        self.slots = list(slots)        # [(present, value)] consumed in order of first lookups
        self.used = 0
        self.absent = []
        self.initial = []
        self.cleared = False

    def _find(self, k):
        i = SymMap._find(self, k)
        if i >= 0 or self.cleared:
            return i
        for a in self.absent:
            if bool(key_eq(a, k)):
                return -1
        if self.used >= len(self.slots):
            raise Unsupported('%s: more than %d distinct keys looked up in an arbitrary pre-state' % (self.name, len(self.slots)))
        present, value = self.slots[self.used]
        self.used += 1
        if bool(present):
            self.pairs.append((k, value))
            self.initial.append((k, value))
            return len(self.pairs) - 1
        self.absent.append(k)
        return -1

    def _forget_absent(self, k):
        self.absent = [a for a in self.absent if not bool(key_eq(a, k))]

    def _set(self, k, v):
        i = SymMap._find(self, k)
        if i < 0:
            # the pre-state's binding of k (if any) is overwritten without having been read: no need to decide it
            self._forget_absent(k)
            self.pairs.append((k, v))
            self.overwritten = getattr(self, 'overwritten', []) + [k]
        else:
            self.pairs[i] = (self.pairs[i][0], v)

    def _find_known(self, k):
        """lookup that treats keys overwritten before being read as decided"""
        return self._find(k)

    def pop(self, k, d=_MISSING):
        i = self._find(k)
        if i < 0:
            if d is not _MISSING:
                return d
            raise KeyError(k)
        self.log.append(('del', k, None, self.writer))
        v = self.pairs.pop(i)[1]
        self.absent.append(k)
        return v

    def setdefault(self, k, d=None):
        i = self._find(k)
        if i < 0:
            self.log.append(('set', k, d, self.writer))
            self._forget_absent(k)
            self.pairs.append((k, d))
            return d
        return self.pairs[i][1]

    def clear(self):
        SymMap.clear(self)
        self.cleared = True
        self.absent = []

    def _no_enum(self, *a, **kw):
        raise Unsupported('%s: enumeration of a table in an arbitrary pre-state' % self.name)

    __len__ = __iter__ = keys = values = items = __bool__ = copy = _no_enum

    def __repr__(self):
        return 'HavocMap(%s, %d entries consulted)' % (self.name, len(self.pairs))


class SymTable(dict):
    """A concrete dict (of the host or of the repo) probed with symbolic int keys."""
    sx_name = 'table'
    sx_small = 16

    def _keys(self):
        c = getattr(self, '_sx_keys_cache', None)
        if c is None or c[0] != len(self):
            keys = sorted(kk for kk in dict.keys(self) if isinstance(kk, int) and not isinstance(kk, bool))
            # membership is encoded as a union of intervals; keys that are regularly spaced (event ids are mostly
            # multiples of 4) are grouped by their low bits and compared after shifting those out, whichever
            # shift gives the fewest intervals
            best = None
            for shift in range(0, 5):
                groups = {}
                for v in keys:
                    groups.setdefault(v & ((1 << shift) - 1), []).append(v >> shift)
                enc = {}
                n = 0
                for low, qs in groups.items():
                    rr = []
                    for q in qs:
                        if rr and rr[-1][1] == q - 1:
                            rr[-1][1] = q
                        else:
                            rr.append([q, q])
                    enc[low] = rr
                    n += len(rr)
                if best is None or n < best[0]:
                    best = (n, shift, enc)
                if keys and keys[0] < 0:
                    break
            runs = (best[1], best[2]) if best else (0, {})
            c = (len(self), keys, runs)
            self._sx_keys_cache = c
            self._sx_member_terms = {}
        return c

    def _member(self, k):
        _, keys, runs = self._keys()
        if not keys:
            return False
        cache = self._sx_member_terms
        i = k.e.get_id()
        hit = cache.get(i)
        if hit is not None and hit[0].eq(k.e):
            return SymBool(hit[1]) if hit[1] is not True and hit[1] is not False else hit[1]
        shift, enc = runs
        q = (k.e >> shift) if shift else k.e
        alts = []
        for low, rr in enc.items():
            parts = []
            for lo, hi in rr:
                parts.append(q == lo if lo == hi else z3.And(q >= lo, q <= hi))
            t = z3.Or(*parts) if len(parts) > 1 else parts[0]
            if shift:
                t = z3.And((k.e & ((1 << shift) - 1)) == low, t)
            alts.append(t)
        t = z3.Or(*alts) if len(alts) > 1 else alts[0]
        t = z3.simplify(t)
        r = True if z3.is_true(t) else False if z3.is_false(t) else t
        if len(cache) > 4096:
            cache.clear()
        cache[i] = (k.e, r)
        return SymBool(r) if r is not True and r is not False else r

    def __contains__(self, k):
        if isinstance(k, SymInt):
            return bool(self._member(k))
        return dict.__contains__(self, k)

    def __getitem__(self, k):
        if isinstance(k, SymInt):
            if not bool(self._member(k)):
                raise KeyError(k)
            keys = self._keys()[1]
            if len(keys) <= min(self.sx_small, 16):
                i = eng().choose([k.e == kk for kk in keys])
                return dict.__getitem__(self, keys[i])
            if len(keys) <= self.sx_small:
                from .values import signed
                v = signed(eng().choose_value(k.e))
                return dict.__getitem__(self, v)
            return make_atom('lookup', k, spec=self.sx_name, extra=self)
        return dict.__getitem__(self, k)

    def get(self, k, d=None):
        if isinstance(k, SymInt):
            return self[k] if k in self else d
        return dict.get(self, k, d)


class GuardedList:
    """Result of a merged list comprehension: elements with z3 guards (True for unconditional)."""

    def __init__(self, elems, guards):
        self.elems = list(elems)
        self.guards = list(guards)     # True | z3 Bool

    def concretize(self):
        en = eng()
        out = []
        for e, g in zip(self.elems, self.guards):
            if g is True or en.branch(g):
                out.append(e)
        return out

    def __iter__(self):
        return iter(self.concretize())

    def __next__(self):
        # a merged generator expression handed to next(): behaves as the generator it stands for
        it = self.__dict__.get('_it')
        if it is None:
            it = self.__dict__['_it'] = iter(self.concretize())
        return next(it)

    def __len__(self):
        return len(self.concretize())

    def __bool__(self):
        return bool(Or(*self.guards))

    def _sx_contains_(self, x):
        gs = [g for e, g in zip(self.elems, self.guards) if e is x or (not _symbolic(e) and e == x)]
        return Or(*gs)

    def __contains__(self, x):
        return bool(self._sx_contains_(x))

    def __getitem__(self, i):
        return self.concretize()[i]

    def __eq__(self, o):
        return self.concretize() == o

    def __add__(self, o):
        if isinstance(o, GuardedList):
            return GuardedList(self.elems + o.elems, self.guards + o.guards)
        if isinstance(o, list):
            return GuardedList(self.elems + o, self.guards + [True] * len(o))
        return NotImplemented

    def __radd__(self, o):
        if isinstance(o, list):
            return GuardedList(o + self.elems, [True] * len(o) + self.guards)
        return NotImplemented

    def __repr__(self):
        return 'GuardedList(%d)' % len(self.elems)

    def append(self, x):
        self.elems.append(x)
        self.guards.append(True)

    def extend(self, xs):
        if isinstance(xs, GuardedList):
            self.elems += xs.elems
            self.guards += xs.guards
        else:
            for x in xs:
                self.append(x)

    def __iadd__(self, xs):
        self.extend(xs)
        return self

    def copy(self):
        return GuardedList(self.elems, self.guards)

    def guard_of(self, x):
        """disjunction of the guards of the elements identical to x"""
        return Or(*[g for e, g in zip(self.elems, self.guards) if e is x])


def _symbolic(e):
    return isinstance(e, (SymInt, SymBool, AtomStr))


class SymSet:
    """set / frozenset built by the code under test from elements some of which are symbolic: membership is decided by
    solver-decided equality instead of hashing"""

    def __init__(self, elems, frozen=True):
        self.elems = []
        for e in elems:
            if not any(x is e for x in self.elems):
                self.elems.append(e)
        self.frozen = frozen

    def _sx_contains_(self, x):
        return Or(*[key_eq(e, x) for e in self.elems])

    def __contains__(self, x):
        return bool(self._sx_contains_(x))

    def __iter__(self):
        return iter(list(self.elems))

    def __len__(self):
        # number of distinct elements: decided by forking on equalities
        distinct = []
        for e in self.elems:
            if not any(bool(key_eq(d, e)) for d in distinct):
                distinct.append(e)
        return len(distinct)

    def __bool__(self):
        return bool(self.elems)

    def __or__(self, o):
        return SymSet(self.elems + list(o), self.frozen)
    __ror__ = __or__
    union = lambda self, *os: SymSet(self.elems + [x for o in os for x in o], self.frozen)

    def add(self, x):
        if self.frozen:
            raise AttributeError('add')
        self.elems.append(x)

    def __hash__(self):
        raise Unsupported('hash of a set with symbolic members')

    def __repr__(self):
        return 'SymSet(%d)' % len(self.elems)


class SymFlag:
    """value of an enum.Flag class called with a symbolic int"""

    def __init__(self, cls, value):
        self.cls = cls
        self.value = value
        self._value_ = value

    def _sx_contains_(self, m):
        v = getattr(m, 'value', m)
        return (self.value & v) == v

    def __contains__(self, m):
        return bool(self._sx_contains_(m))

    def _v(self, o):
        return o.value if isinstance(o, (SymFlag, self.cls)) else o

    def __and__(self, o):
        return SymFlag(self.cls, self.value & self._v(o))
    __rand__ = __and__

    def __or__(self, o):
        return SymFlag(self.cls, self.value | self._v(o))
    __ror__ = __or__

    def __xor__(self, o):
        return SymFlag(self.cls, self.value ^ self._v(o))

    def __bool__(self):
        return bool(self.value != 0)

    def __eq__(self, o):
        if isinstance(o, (SymFlag, self.cls)):
            return self.value == o.value
        return NotImplemented

    def __hash__(self):
        raise Unsupported('hash of a symbolic flag value')

    def __iter__(self):
        for m in self.cls:
            if m in self:
                yield m

    @property
    def name(self):
        raise Unsupported('name of a symbolic flag value')
