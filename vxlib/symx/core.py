"""symx core: path exploration by re-execution, solver plumbing.

Dynamic symbolic execution by proxy values.  The harness calls the real /repo code with proxy
inputs (values.py); whenever the code needs a truth value the proxy asks the engine, which
consults z3 and forks.  Exploration is depth-first with a persistent decision stack; each path is
one full re-execution of the harness function.
"""
import time
import z3

W = 128          # width of the signed bit-vector model of a Python int
MAXDOM = 64      # largest finite domain that is concretised by forking
QUERY_TIMEOUT_MS = int(__import__("os").environ.get("VX_QUERY_TIMEOUT_MS", "30000"))     # per solver call; a call that gives up is retried (fresh solver, other seed, then cvc5)
RETRY_TIMEOUT_MS = 180000


class Abort(BaseException):
    """Path is infeasible / outside the precondition (not an error)."""


class Unsupported(BaseException):
    """The engine cannot carry this construct soundly: the run is inconclusive."""


class Budget(BaseException):
    """A resource bound of the harness (e.g. reads from a stream) was exceeded."""


class Divergence(BaseException):
    """A re-execution did not follow the recorded decisions (engine defect or nondeterministic code under test)."""


class OutOfDomain(ValueError):
    """Raised by the enum shim for the 'no member has this value' alternative.  It is a real
    ValueError (so `except ValueError` in the code under test behaves), tagged so that harnesses
    can recognise 'argument outside the range the decoder names'."""


class Engine:
    def __init__(self):
        self.stack = []          # persistent across paths: [chosen_index, [remaining], multi]
        self.n_feas = 0          # feasibility queries
        self.n_prop = 0          # property queries
        self.n_prop_solver = 0   # ... of which needed the solver (the rest was decided by z3's simplifier)
        self.n_unsat = 0
        self.solver_s = 0.0
        self.n_solver = 0        # actual solver calls (the rest was answered by the cached model)
        self.cur_model = None
        self.solver = None
        self.pc = []
        self.pos = 0
        self.atoms = []
        self.forks_on_path = 0
        self.exact_width = False
        self.hash_collide = False
        self.sampled = None          # set when an unbounded value was concretised by sampling (run is incomplete)
        self.cross_every = 0         # re-discharge every n-th solver-decided property query with cvc5 (0 = off)
        self.cross = {'checked': 0, 'agree': 0, 'disagree': [], 'errors': 0, 'cvc5_s': 0.0}
        self.symbolic = True

    # ------------------------------------------------------------------ per path
    def start(self):
        self.solver = z3.Solver()
        self.solver.set('timeout', QUERY_TIMEOUT_MS)
        self.pos = 0
        self.pc = []
        self.atoms = []
        self.forks_on_path = 0
        self.cur_model = None      # a model of pc, when one is known (saves solver calls)
        self.concretised = []      # values handed out by choose_concrete on this path (relevance-guided sampling)

    def _solve(self, extra=None, want_model=True):
        """sat? of pc (and extra).  Keeps the model: a model of pc-and-extra is a model of pc."""
        t = time.time()
        if extra is not None:
            self.solver.push()
            self.solver.add(extra)
        try:
            self.n_solver += 1
            r = self.solver.check()
            if r == z3.sat and want_model:
                self.cur_model = self.solver.model()
            elif r == z3.unknown:
                r = self._second_attempt(extra, want_model)
        finally:
            if extra is not None:
                self.solver.pop()
            self.solver_s += time.time() - t
        if r == z3.unknown:
            raise Unsupported('solver returned unknown: ' + self.solver.reason_unknown())
        if r == z3.unsat and extra is not None and self.cross_every:
            # a wrong 'unsat' here would prune a real path: a sample of the pruning verdicts gets a second opinion too
            self.n_unsat += 1
            if self.n_unsat % (4 * self.cross_every) == 0:
                t1 = time.time()
                try:
                    v = cvc5_verdict(self.solver, extra)
                except Exception:       # noqa
                    v = 'error'
                self.cross['cvc5_s'] += time.time() - t1
                self.cross['checked'] += 1
                if v == 'unsat':
                    self.cross['agree'] += 1
                elif v == 'sat':
                    self.cross['disagree'].append('branch pruned by z3 is satisfiable for cvc5')
                else:
                    self.cross['errors'] += 1
        return r == z3.sat

    def _second_attempt(self, extra, want_model):
        """the incremental solver gave up within its per-query limit (the same query is occasionally easy under another
        search order): a fresh solver with another seed and a longer limit, then cvc5 for the verdict alone"""
        self.n_retry = getattr(self, 'n_retry', 0) + 1
        s2 = z3.Solver()
        s2.set('timeout', RETRY_TIMEOUT_MS)
        s2.set('random_seed', 7 + self.n_retry)
        for c in self.pc:
            s2.add(c)
        if extra is not None:
            s2.add(extra)
        r = s2.check()
        if r == z3.sat and want_model:
            self.cur_model = s2.model()
        if r != z3.unknown:
            return r
        try:
            v = cvc5_verdict(s2, z3.BoolVal(True), timeout_ms=RETRY_TIMEOUT_MS)
        except Exception:       # noqa
            v = 'error'
        if v == 'unsat':
            return z3.unsat
        if v == 'sat' and not want_model:
            return z3.sat
        return z3.unknown

    def _holds(self, cond):
        m = self.cur_model
        if m is None:
            return False
        return z3.is_true(m.eval(cond, model_completion=True))

    def ensure_model(self):
        if self.cur_model is None:
            if not self._solve():
                raise Abort('path condition infeasible')
        return self.cur_model

    def feasible(self, cond):
        self.n_feas += 1
        if self._holds(cond):
            return True
        return self._solve(cond)

    def _commit(self, cond):
        self.pc.append(cond)
        self.solver.add(cond)
        if self.cur_model is not None and not self._holds(cond):
            self.cur_model = None

    def assume(self, cond):
        """Add a precondition.  Must be called before the code it constrains runs."""
        cond = as_bool(cond)
        if cond is True:
            return
        if cond is False:
            raise Abort('assumption false')
        self._commit(cond)

    def assume_checked(self, cond):
        self.assume(cond)
        self.ensure_model()

    def choose(self, conds, exhaustive=True):
        """k-way decision over z3 Bools; returns the chosen index.  With exhaustive=False the
        engine itself proves that the alternatives cover pc."""
        if self.pos < len(self.stack):
            ent = self.stack[self.pos]
        else:
            m = self.ensure_model()
            first = None
            for i, c in enumerate(conds):
                if z3.is_true(m.eval(c, model_completion=True)):
                    first = i
                    break
            if first is not None and not self.feasible(z3.Not(conds[first])):
                ent = [first, [], False]          # implied by pc: no decision to make
            else:
                feas = [i for i, c in enumerate(conds) if i == first or self.feasible(c)]
                if not exhaustive:
                    self.n_feas += 1
                    if self._solve(z3.Not(z3.Or(*conds)) if len(conds) > 1 else z3.Not(conds[0]), want_model=False):
                        raise Unsupported('choose: alternatives not exhaustive')
                if not feas:
                    raise Abort('no feasible alternative')
                ent = [feas[0], feas[1:], len(feas) > 1]
            self.stack.append(ent)
        if ent[2]:
            self.forks_on_path += 1
        self.pos += 1
        if len(ent) != 3 or ent[0] >= len(conds):
            raise Divergence('choose: %d alternatives where the recorded decision has index %r' % (len(conds), ent[0]))
        self._commit(conds[ent[0]])
        return ent[0]

    def choose_concrete(self, e, why='', limit=MAXDOM):
        """concretise the term e: fork over all its values when there are at most `limit`; otherwise continue with a
        few of them (under-approximation, the run is marked incomplete): the values already handed out on this path that
        e can also take (so equality patterns between concretised values are all reached), then one or two fresh ones.
        The values are recorded with the decision, so re-executions neither re-enumerate nor diverge."""
        if self.pos < len(self.stack):
            ent = self.stack[self.pos]
            if len(ent) != 5:
                raise Divergence('choose_concrete: recorded decision is of another kind')
        else:
            dom = self.domain(e, limit)
            if not dom:
                raise Abort('infeasible')
            sampled = len(dom) > limit
            if sampled:
                picks = []
                for v in self.concretised:
                    if v not in picks and len(picks) < 6 and self.feasible(e == v):
                        picks.append(v)
                fresh = [v for v in (dom[0], min(dom), max(dom)) if v not in picks]
                for v in fresh[:max(1, 3 - len(picks))]:
                    if v not in picks:
                        picks.append(v)
                vals = picks
            else:
                vals = sorted(dom)
            ent = [0, list(range(1, len(vals))), len(vals) > 1, vals, sampled]
            self.stack.append(ent)
        if ent[2]:
            self.forks_on_path += 1
        self.pos += 1
        if ent[4]:
            self.sampled = 'concretisation for %s' % why
        v = ent[3][ent[0]]
        self._commit(e == v)
        self.concretised.append(v)
        return v

    def choose_value(self, e, limit=100000):
        """fork over the values the term e can take under pc (enumerated by the solver, one call per
        value); returns the chosen value as an unsigned int of e's width"""
        if self.pos < len(self.stack):
            ent = self.stack[self.pos]
            if len(ent) != 4:
                raise Divergence('choose_value: recorded decision is of another kind')
        else:
            vals = []
            keep = self.cur_model
            self.solver.push()
            try:
                while True:
                    self.n_feas += 1
                    if not self._solve():
                        break
                    v = self.cur_model.eval(e, model_completion=True).as_long()
                    vals.append(v)
                    if len(vals) > limit:
                        raise Unsupported('choose_value: more than %d values' % limit)
                    self.solver.add(e != v)
            finally:
                self.solver.pop()
                self.cur_model = keep
            if not vals:
                raise Abort('no feasible value')
            vals.sort()
            ent = [0, list(range(1, len(vals))), len(vals) > 1, vals]
            self.stack.append(ent)
        if ent[2]:
            self.forks_on_path += 1
        self.pos += 1
        v = ent[3][ent[0]]
        self._commit(e == v)
        return v

    def branch(self, cond):
        """2-way decision on a z3 Bool."""
        cond = z3.simplify(cond)
        if z3.is_true(cond):
            return True
        if z3.is_false(cond):
            return False
        return self.choose([cond, z3.Not(cond)]) == 0

    def advance(self):
        while self.stack and not self.stack[-1][1]:
            self.stack.pop()
        if not self.stack:
            return False
        top = self.stack[-1]
        top[0] = top[1].pop(0)
        return True

    def domain(self, e, limit=MAXDOM):
        """Values the bit-vector term e can take under the current pc (up to limit+1 of them)."""
        vals = []
        keep = self.cur_model
        self.solver.push()
        try:
            while len(vals) <= limit:
                self.n_feas += 1
                if not self._solve():
                    break
                v = self.cur_model.eval(e, model_completion=True).as_long()
                vals.append(v)
                self.solver.add(e != v)
        finally:
            self.solver.pop()
            self.cur_model = keep
        return vals

    def must(self, cond):
        """Is cond valid under pc?  (pc and not cond is unsat)"""
        cond = as_bool(cond)
        if cond is True:
            return True
        if cond is False:
            return False
        return not self.feasible(z3.Not(cond))

    def model(self, extra=None):
        """A model of pc (and extra), or None."""
        if extra is None:
            try:
                return self.ensure_model()
            except Abort:
                return None
        if self._holds(extra):
            return self.cur_model
        keep = self.cur_model
        if self._solve(extra):
            m = self.cur_model
            return m
        self.cur_model = keep
        return None


def cvc5_verdict(solver, extra, timeout_ms=20000):
    """sat / unsat / unknown of (assertions of the z3 solver) AND extra, decided by cvc5 from the SMT-LIB2 dump"""
    import cvc5
    solver.push()
    try:
        solver.add(extra)
        text = solver.to_smt2()
    finally:
        solver.pop()
    slv = cvc5.Solver()
    slv.setOption('tlimit-per', str(timeout_ms))
    slv.setLogic('QF_BV')
    parser = cvc5.InputParser(slv)
    parser.setStringInput(cvc5.InputLanguage.SMT_LIB_2_6, text, 'query')
    sm = parser.getSymbolManager()
    verdict = 'unknown'
    while True:
        cmd = parser.nextCommand()
        if cmd.isNull():
            break
        out = str(cmd.invoke(slv, sm)).strip()
        if out in ('sat', 'unsat', 'unknown'):
            verdict = out
        elif out.startswith('(error'):
            return 'error'
    return verdict


_PROXY_NAMES = ('SymInt', 'SymBool', 'SymBytes', 'SymStr', 'AtomStr', 'SymMap', 'SymTable', 'GuardedList', 'SymStream',
                'SymSet', 'SymFlag', 'PresenceDict')


def proxy_rejected(e):
    """an exception that only says 'a C function does not take my proxy object': the engine's limitation, not the
    behaviour of the code under test.  Harnesses call this where they catch the code's exceptions."""
    if _ENG[0] is None:
        return e        # concrete run: there are no symbolic values, every exception is the code's own
    if isinstance(e, (TypeError, AttributeError, ValueError)):
        msg = str(e.args[0]) if e.args and isinstance(e.args[0], str) else ''
        if any(n in msg for n in _PROXY_NAMES):
            raise Unsupported('a C-level operation rejected a proxy value: %s: %s' % (type(e).__name__, msg[:160]))
    if isinstance(e, TypeError) and e.__traceback__ is not None:
        # a TypeError raised by a C function (no frame of its own) called from code that holds proxy values: C argument
        # converters reject objects that are not exact ints/strs/bytes with messages that do not name the class
        tb = e.__traceback__
        while tb.tb_next is not None:
            tb = tb.tb_next
        fr = tb.tb_frame
        if '/vxlib/' not in fr.f_code.co_filename and _holds_proxy(fr):
            raise Unsupported('a TypeError was raised in a frame that holds proxy values (%s:%d): %s'
                              % (fr.f_code.co_name, tb.tb_lineno, str(e)[:120]))
    return e


def _holds_proxy(frame):
    def is_proxy(v):
        return type(v).__name__ in _PROXY_NAMES and type(v).__module__.startswith('vxlib.')
    for v in list(frame.f_locals.values()):
        if is_proxy(v):
            return True
        if isinstance(v, (list, tuple)) and any(is_proxy(x) for x in v[:16]):
            return True
        d = getattr(v, '__dict__', None)
        if isinstance(d, dict) and type(v).__module__.startswith('pykdebugparser') and any(is_proxy(x) for x in list(d.values())):
            return True
    return False


def as_bool(c):
    """SymBool | SymInt | bool | z3 Bool -> True | False | z3 Bool"""
    from .values import SymBool, SymInt
    if isinstance(c, SymBool):
        c = c.e
    elif isinstance(c, SymInt):
        c = c.e != 0
    if isinstance(c, bool):
        return c
    if isinstance(c, int):
        return bool(c)
    if c is None:
        return False
    c = z3.simplify(c)
    if z3.is_true(c):
        return True
    if z3.is_false(c):
        return False
    return c


_ENG = [None]


def eng():
    e = _ENG[0]
    if e is None:
        raise Unsupported('symbolic value used outside an engine run')
    return e


def set_engine(e):
    _ENG[0] = e
