"""Stubs for the C boundaries the code under test crosses (the trusted base of every check).

Every stub falls through to the real function for concrete arguments, so the same process can
run the code concretely.  `install()` is idempotent; `STUBS` describes what is modelled.
"""
import builtins
import ctypes
import enum
import errno
import re
import struct
import z3

from .core import W, Unsupported, OutOfDomain, eng
from .values import SymInt, SymBool, SymBytes, AtomStr, mk, make_atom, word_from_items, items_from_word
from .maps import SymTable

STUBS = [
    'struct.unpack/pack/unpack_from and struct.Struct methods on symbolic operands: generated from the format string passed by the code '
    '(< > = !, counts, x c b B ? h H i I l L q Q s); size check as in C',
    'ctypes.c_{u}int{8,16,32,64}(x).value: extract + sign/zero extension',
    'enum value->member lookup (EnumType.__call__): k-way fork over the distinct member values, '
    'ValueError(OutOfDomain) for the rest',
    'builtins.hex / builtins.chr / str() / format() of a symbolic int: opaque rendering atoms '
    '(kind, term, format spec)',
    'errno.errorcode: SymTable (membership = disjunction over the host keys; value = lookup atom)',
]

_real = {
    'unpack': struct.unpack, 'pack': struct.pack, 'unpack_from': struct.unpack_from, 'hex': builtins.hex, 'chr': builtins.chr,
    'enum_call': enum.EnumType.__call__, 'errorcode': errno.errorcode,
}
for _bits in (8, 16, 32, 64):
    for _nm in ('c_int%d' % _bits, 'c_uint%d' % _bits):
        _real[_nm] = getattr(ctypes, _nm)
_installed = [False]

_SIZES = {'c': 1, 'b': 1, 'B': 1, '?': 1, 'h': 2, 'H': 2, 'i': 4, 'I': 4, 'l': 4, 'L': 4, 'q': 8, 'Q': 8}
_SIGNED = set('bhilq')
_FMT_TOKEN = re.compile(r'\s*(\d*)([a-zA-Z?])')


def parse_struct_format(fmt):
    """-> (big_endian, [(count, code)])  for standard-size formats only"""
    if isinstance(fmt, bytes):
        fmt = fmt.decode()
    if not fmt or fmt[0] not in '<>=!':
        raise Unsupported('struct format with native alignment: %r' % fmt)
    big = fmt[0] in '>!'
    toks = []
    pos = 1
    while pos < len(fmt):
        m = _FMT_TOKEN.match(fmt, pos)
        if not m:
            if fmt[pos:].strip() == '':
                break
            raise Unsupported('struct format %r' % fmt)
        cnt, code = m.group(1), m.group(2)
        if code not in _SIZES and code not in 'sx':
            raise Unsupported('struct format code %r' % code)
        toks.append((int(cnt) if cnt else 1, code))
        pos = m.end()
    return big, toks


def _has_sym(x):
    return isinstance(x, (SymBytes, SymInt, SymBool))


def sym_unpack(fmt, buf):
    if not isinstance(buf, SymBytes):
        return _real['unpack'](fmt, buf)
    need = struct.calcsize(fmt)
    if need != len(buf):
        raise struct.error('unpack requires a buffer of %d bytes' % need)
    big, toks = parse_struct_format(fmt)
    out = []
    pos = 0
    for cnt, code in toks:
        if code == 's':
            out.append(buf[pos:pos + cnt]); pos += cnt
        elif code == 'x':
            pos += cnt
        else:
            n = _SIZES[code]
            for _ in range(cnt):
                w = buf.items[pos:pos + n]
                pos += n
                if code == 'c':
                    out.append(SymBytes.make(w))
                elif code == '?':
                    v = word_from_items(w)
                    out.append(v != 0 if isinstance(v, SymInt) else bool(v))
                else:
                    out.append(word_from_items(w, big=big, sign=code in _SIGNED))
    return tuple(out)


def sym_pack(fmt, *vals):
    if not any(_has_sym(v) for v in vals):
        return _real['pack'](fmt, *vals)
    big, toks = parse_struct_format(fmt)
    items = []
    vi = 0
    for cnt, code in toks:
        if code == 'x':
            items += [0] * cnt
        elif code == 's':
            v = vals[vi]; vi += 1
            its = list(v.items) if isinstance(v, SymBytes) else list(v)
            its = (its + [0] * cnt)[:cnt]
            items += its
        else:
            n = _SIZES[code]
            for _ in range(cnt):
                v = vals[vi]; vi += 1
                if isinstance(v, SymInt):
                    # range check as C struct does
                    lo, hi = (-(1 << (8 * n - 1)), (1 << (8 * n - 1)) - 1) if code in _SIGNED else (0, (1 << (8 * n)) - 1)
                    if bool((v < lo) | (v > hi)):
                        raise struct.error('argument out of range')
                    items += items_from_word(v, n, big=big)
                elif isinstance(v, SymBytes):
                    items += v.items
                else:
                    items += list(_real['pack'](('>' if big else '<') + code, v))
    if vi != len(vals):
        raise struct.error('pack expected %d items for packing (got %d)' % (vi, len(vals)))
    return SymBytes.make(items)


_RealStruct = struct.Struct


class SymStruct(_RealStruct):
    """struct.Struct whose methods accept symbolic operands (precompiled formats)"""

    def unpack(self, buf):
        if isinstance(buf, SymBytes):
            return sym_unpack(self.format, buf)
        return _RealStruct.unpack(self, buf)

    def unpack_from(self, buf, offset=0):
        if isinstance(buf, SymBytes):
            if offset < 0:
                offset += len(buf)
            if offset < 0 or len(buf) - offset < self.size:
                raise struct.error('unpack_from requires a buffer of at least %d bytes' % (self.size + max(offset, 0)))
            part = buf[offset:offset + self.size]
            return sym_unpack(self.format, part) if isinstance(part, SymBytes) else _RealStruct.unpack(self, part)
        return _RealStruct.unpack_from(self, buf, offset)

    def pack(self, *vals):
        if any(_has_sym(v) for v in vals):
            return sym_pack(self.format, *vals)
        return _RealStruct.pack(self, *vals)

    def iter_unpack(self, buf):
        if isinstance(buf, SymBytes):
            if self.size == 0 or len(buf) % self.size:
                raise struct.error('iterative unpacking requires a buffer of a multiple of %d bytes' % self.size)
            return iter([self.unpack(buf[i:i + self.size]) for i in range(0, len(buf), self.size)])
        return _RealStruct.iter_unpack(self, buf)


def sym_unpack_from(fmt, buf, offset=0):
    if isinstance(buf, SymBytes):
        return SymStruct(fmt).unpack_from(buf, offset)
    return _real['unpack_from'](fmt, buf, offset)


class _CIntValue:
    __slots__ = ('value',)

    def __init__(self, v):
        self.value = v


def _make_cint(bits, sign, real):
    def ctor(x=0):
        if isinstance(x, SymInt):
            lo = z3.Extract(bits - 1, 0, x.e)
            e = z3.SignExt(W - bits, lo) if sign else z3.ZeroExt(W - bits, lo)
            return _CIntValue(mk(e, bits, not sign))
        return real(x)
    ctor.__name__ = real.__name__
    ctor._sx_real = real
    return ctor


def sym_hex(x):
    if isinstance(x, SymInt):
        return make_atom('x', x)
    return _real['hex'](x)


def sym_chr(x):
    if isinstance(x, SymInt):
        return make_atom('chr', x)
    return _real['chr'](x)


_enum_cache = {}
_enum_conds = {}


def _enum_values(cls):
    c = _enum_cache.get(cls)
    if c is None:
        vals, members = [], []
        for m in cls.__members__.values():
            v = m.value
            if isinstance(v, int) and not isinstance(v, bool) and v not in vals:
                vals.append(int(v)); members.append(m)
        c = (vals, members)
        _enum_cache[cls] = c
    return c


_DEFAULT_MISSING = enum.Enum.__dict__['_missing_'].__func__


def sym_enum_call(cls, value, *a, **kw):
    if isinstance(value, SymInt) and not a and not kw:
        if issubclass(cls, enum.Flag):
            # a Flag accepts combinations: fork over the values the word can take when there are few, else carry the
            # word symbolically (membership tests become bit tests)
            dom = eng().domain(value.e)
            if len(dom) <= 64:
                return _real['enum_call'](cls, value.concretize('Flag enum %s' % cls.__name__))
            from .maps import SymFlag
            return SymFlag(cls, value)
        vals, members = _enum_values(cls)
        key = (cls, value.e.get_id())
        hit = _enum_conds.get(key)
        if hit is not None and hit[0].eq(value.e):
            conds = hit[1]
        else:
            conds = [value.e == v for v in vals]
            conds.append(z3.And(*[value.e != v for v in vals]) if len(vals) > 1 else value.e != vals[0])
            if len(_enum_conds) > 2048:
                _enum_conds.clear()
            _enum_conds[key] = (value.e, conds)
        i = eng().choose(conds)
        if i < len(members):
            return members[i]
        missing = getattr(cls, '_missing_', None)
        if missing is not None and getattr(missing, '__func__', missing) is not _DEFAULT_MISSING:
            # the class has its own _missing_ hook: it runs (on the symbolic value, under 'no member has this value')
            # with the outcomes Enum.__new__ gives it
            r = missing(value)
            if isinstance(r, cls):
                return r
            if r is not None:
                raise TypeError('error in %s._missing_: returned %r instead of None or a valid member' % (cls.__name__, r))
        raise OutOfDomain('%s is not a valid %s' % ('<symbolic>', cls.__qualname__))
    return _real['enum_call'](cls, value, *a, **kw)


class ErrnoTable(SymTable):
    sx_name = 'errno.errorcode'
    sx_small = 0


def install():
    if _installed[0]:
        return
    _installed[0] = True
    struct.unpack = sym_unpack
    struct.pack = sym_pack
    struct.unpack_from = sym_unpack_from
    struct.Struct = SymStruct
    builtins.hex = sym_hex
    builtins.chr = sym_chr
    enum.EnumType.__call__ = sym_enum_call
    for bits in (8, 16, 32, 64):
        for sign in (True, False):
            name = ('c_int%d' if sign else 'c_uint%d') % bits
            setattr(ctypes, name, _make_cint(bits, sign, _real[name]))
    errno.errorcode = ErrnoTable(errno.errorcode)


def uninstall():
    if not _installed[0]:
        return
    _installed[0] = False
    struct.unpack = _real['unpack']
    struct.pack = _real['pack']
    struct.unpack_from = _real['unpack_from']
    struct.Struct = _RealStruct
    builtins.hex = _real['hex']
    builtins.chr = _real['chr']
    enum.EnumType.__call__ = _real['enum_call']
    for bits in (8, 16, 32, 64):
        for sign in (True, False):
            name = ('c_int%d' if sign else 'c_uint%d') % bits
            setattr(ctypes, name, _real[name])
    errno.errorcode = _real['errorcode']


def real(name):
    return _real[name]
