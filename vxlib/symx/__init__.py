"""symx: proxy-value symbolic execution of the real /repo code, decided by z3."""
from .core import Abort, Unsupported, Budget, OutOfDomain, W, eng, proxy_rejected
from .values import (SymInt, SymBool, SymBytes, AtomStr, Atom, And, Or, Not, Implies, Ite, term, lift, mk, mkb,
                     parse_template, describe_template, render_template, has_atoms, signed)
from .maps import SymMap, SymTable, GuardedList, HavocMap
