"""Per-run validation of the trusted base: every stub / proxy operation is compared with the real
C implementation on concrete values (boundary values plus VERIF_SEED-seeded random ones)."""
import ctypes
import enum
import random
import struct
import z3

from . import core, shims
from .core import Engine, set_engine, W, Abort
from .values import SymInt, SymBool, SymBytes, signed, symint, var


def _eval_int(x, subst):
    if isinstance(x, SymInt):
        e = z3.simplify(z3.substitute(x.e, *subst))
        assert z3.is_bv_value(e), e
        return signed(e.as_long())
    if isinstance(x, SymBool):
        e = z3.simplify(z3.substitute(x.e, *subst))
        return z3.is_true(e)
    return x


def _eval_bytes(x, subst):
    if isinstance(x, SymBytes):
        out = []
        for it in x.items:
            if isinstance(it, int):
                out.append(it)
            else:
                out.append(z3.simplify(z3.substitute(it, *subst)).as_long())
        return bytes(out)
    return x


def repo_struct_formats():
    """format strings found as literals in the repo source, plus the ones construct's Int32ul/Int64ul/Byte use;
    found by scanning the source (no repo module is imported here)"""
    import ast
    import glob
    fmts = {'<Q32sQIIQ', '<QQQQ', '<L', '<Q', '>B', '<I', '<H', '>H', '>Q', '<q', '<i', '<h', '<b', '>I', '<4s2xB?', '<l'}
    from vxlib.paths import REPO
    for fn in glob.glob(REPO + '/pykdebugparser/**/*.py', recursive=True):
        try:
            tree = ast.parse(open(fn).read())
        except (OSError, SyntaxError):
            continue
        for n in ast.walk(tree):
            if isinstance(n, ast.Constant) and isinstance(n.value, str) and n.value[:1] in '<>' and 1 < len(n.value) < 32:
                try:
                    struct.calcsize(n.value); fmts.add(n.value)
                except struct.error:
                    pass
    return sorted(fmts)


def validate_struct(rng, n):
    fails = []
    cases = 0
    for fmt in repo_struct_formats():
        size = struct.calcsize(fmt)
        sb = SymBytes.fresh('vb', size)
        try:
            sym = shims.sym_unpack(fmt, sb)
        except core.Unsupported:
            continue
        for k in range(n):
            if k == 0:
                b = bytes(size)
            elif k == 1:
                b = b'\xff' * size
            elif k == 2:
                b = bytes([0x80] * size)
            else:
                b = bytes(rng.randrange(256) for _ in range(size))
            subst = [(it, z3.BitVecVal(b[i], 8)) for i, it in enumerate(sb.items)]
            got = tuple(_eval_bytes(_eval_int(x, subst), subst) for x in sym)
            want = shims.real('unpack')(fmt, b)
            cases += 1
            if got != want:
                fails.append(('unpack', fmt, b.hex(), got, want))
            # pack is validated as the inverse on the unpacked values
            if 's' not in fmt and '?' not in fmt and 'x' not in fmt:
                symvals = []
                substp = []
                for j, w in enumerate(want):
                    v = z3.BitVec('pv%d' % j, W)
                    symvals.append(SymInt(v, 66, False))
                    substp.append((v, z3.BitVecVal(w, W)))
                eng = Engine(); set_engine(eng); eng.start()
                try:
                    for sv, (v, c) in zip(symvals, substp):
                        eng.assume(v == c)
                    pk = shims.sym_pack(fmt, *symvals)
                    gotb = _eval_bytes(pk, substp)
                    cases += 1
                    if gotb != b:
                        fails.append(('pack', fmt, want, gotb.hex(), b.hex()))
                finally:
                    set_engine(None)
    return cases, fails


def validate_ctypes(rng, n):
    fails = []
    cases = 0
    x = z3.BitVec('vx', 64)
    sx = SymInt(z3.ZeroExt(W - 64, x), 64, True)
    for bits in (8, 16, 32, 64):
        for sign in (True, False):
            name = ('c_int%d' if sign else 'c_uint%d') % bits
            stub = shims._make_cint(bits, sign, shims.real(name))
            realc = stub._sx_real
            sym = stub(sx).value
            for k in range(n):
                v = [0, 1, (1 << (bits - 1)) - 1, 1 << (bits - 1), (1 << bits) - 1, (1 << 64) - 1, 1 << 63][k] if k < 7 \
                    else rng.getrandbits(64)
                got = _eval_int(sym, [(x, z3.BitVecVal(v, 64))])
                cases += 1
                if got != realc(v).value:
                    fails.append((name, v, got, realc(v).value))
    return cases, fails


def _rand_int(rng):
    k = rng.randrange(6)
    if k == 0:
        return rng.choice([0, 1, 2, 3, (1 << 64) - 1, 1 << 63, (1 << 32) - 1, 1 << 32, 1 << 31, 0xffffffff00000000])
    if k == 1:
        return rng.getrandbits(8)
    if k == 2:
        return rng.getrandbits(32)
    return rng.getrandbits(64)


def validate_arith(rng, n):
    """random operator trees over three 64-bit inputs: proxy result vs Python int result"""
    fails = []
    cases = 0
    a, b, c = (z3.BitVec(nm, 64) for nm in ('va', 'vb', 'vc'))
    syms = [SymInt(z3.ZeroExt(W - 64, v), 64, True) for v in (a, b, c)]

    def build(depth):
        """returns a function env -> value applying identical Python operators"""
        if depth == 0 or rng.random() < 0.25:
            if rng.random() < 0.3:
                k = rng.choice([0, 1, 3, 0xff, 0xffff, 0xfffffffc, 0xe0000000, -1, 24, 16, 1 << 63])
                return lambda env: k
            i = rng.randrange(3)
            return lambda env: env[i]
        op = rng.choice(['&', '|', '^', '+', '-', '>>', '<<', '~', 'neg', '//', '%', 'c32', 'c64', 'ite'])
        l = build(depth - 1)
        r = build(depth - 1)
        if op == '&': return lambda env: l(env) & r(env)
        if op == '|': return lambda env: l(env) | r(env)
        if op == '^': return lambda env: l(env) ^ r(env)
        if op == '+': return lambda env: l(env) + r(env)
        if op == '-': return lambda env: l(env) - r(env)
        if op == '>>':
            k = rng.choice([0, 1, 8, 16, 24, 32, 63]); return lambda env: l(env) >> k
        if op == '<<':
            k = rng.choice([0, 1, 2, 8]); return lambda env: l(env) << k
        if op == '~': return lambda env: ~l(env)
        if op == 'neg': return lambda env: -l(env)
        if op == '//':
            k = rng.choice([1, 3, 64, 1000]); return lambda env: (l(env) & 0xffffffffffffffff) // k
        if op == '%':
            k = rng.choice([1, 3, 64, 1000]); return lambda env: (l(env) & 0xffffffffffffffff) % k
        if op == 'c32':
            return lambda env: ctypes.c_int32(l(env)).value
        if op == 'c64':
            return lambda env: ctypes.c_int64(l(env)).value
        if op == 'ite':
            return lambda env: l(env) if (r(env) & 1) == 0 else l(env) + 1
        raise AssertionError

    installed = shims._installed[0]
    shims.install()
    try:
        for _ in range(n):
            f = build(3)
            eng = Engine(); set_engine(eng); eng.start()
            vals = [_rand_int(rng) for _ in range(3)]
            try:
                for v, c_ in zip((a, b, c), vals):
                    eng.assume(v == c_)
                try:
                    sym = f(syms)
                    cmp_ = sym < syms[0], sym == vals[1], sym >= 0
                except core.Unsupported:
                    continue
                subst = [(v, z3.BitVecVal(c_, 64)) for v, c_ in zip((a, b, c), vals)]
                got = _eval_int(sym, subst)
                want = f(vals)
                cases += 1
                if got != want:
                    fails.append(('arith', vals, got, want))
                wc = (want < vals[0], want == vals[1], want >= 0)
                gc = tuple(_eval_int(x, subst) for x in cmp_)
                if gc != wc:
                    fails.append(('cmp', vals, gc, wc))
            finally:
                set_engine(None)
    finally:
        if not installed:
            shims.uninstall()
    return cases, fails


class _E(enum.Enum):
    A = 0
    B = 5
    C = -1
    D = 5      # alias


def validate_enum(rng, n):
    fails = []
    cases = 0
    installed = shims._installed[0]
    shims.install()
    try:
        x = z3.BitVec('ve', 64)
        for v in [0, 5, (1 << 64) - 1, 1, 7] + [rng.getrandbits(3) for _ in range(n)]:
            eng = Engine(); set_engine(eng); eng.start()
            try:
                eng.assume(x == v)
                s = SymInt(z3.SignExt(W - 64, x), 64, False)
                try:
                    got = _E(s)
                except ValueError:
                    got = 'ValueError'
                try:
                    want = shims.real('enum_call')(_E, signed(v, 64))
                except ValueError:
                    want = 'ValueError'
                cases += 1
                if got is not want and got != want:
                    fails.append(('enum', v, got, want))
            finally:
                set_engine(None)
    finally:
        if not installed:
            shims.uninstall()
    return cases, fails


def validate_render(rng, n):
    """atoms render through the real format machinery; check the exact-width computation instead"""
    from .values import _mono_range, _render_int
    fails = []
    cases = 0
    for kind, spec in (('d', ''), ('x', ''), ('fmt', '>11'), ('fmt', '016x'), ('fmt', '<12'), ('fmt', 'x'), ('fmt', '#o')):
        for _ in range(n):
            v = rng.getrandbits(rng.choice([1, 4, 8, 20, 33, 64]))
            L = len(_render_int(kind, v, spec))
            lo, hi = _mono_range(lambda t: len(_render_int(kind, t, spec)), L, 0, 1 << 126)
            cases += 1
            ok = lo <= v <= hi and len(_render_int(kind, lo, spec)) == L and len(_render_int(kind, hi, spec)) == L
            if lo > 0:
                ok = ok and len(_render_int(kind, lo - 1, spec)) != L
            ok = ok and len(_render_int(kind, hi + 1, spec)) != L
            if not ok:
                fails.append(('width', kind, spec, v, lo, hi))
    return cases, fails


def validate_symstr(rng, n):
    """SymStr.splitlines / split / hex value on concrete strings vs the real str methods and int(s, 16)"""
    from .symstr import SymStr, hex_value
    fails = []
    cases = 0
    alphabet = ' \t\n\r\x0b\x0cab0x9Ff#_;'
    eng = Engine(); set_engine(eng); eng.start()
    try:
        for _ in range(4 * n):
            s = ''.join(rng.choice(alphabet) for _ in range(rng.randrange(0, 14)))
            sy = SymStr([ord(c) for c in s])
            got = [x if isinstance(x, str) else ''.join(chr(i) for i in x.items) for x in sy.splitlines()]
            cases += 1
            if got != s.splitlines():
                fails.append(('splitlines', s, got, s.splitlines()))
            got = [x if isinstance(x, str) else ''.join(chr(i) for i in x.items) for x in sy.split()]
            cases += 1
            if got != s.split():
                fails.append(('split', s, got, s.split()))
        for _ in range(2 * n):
            digits = ''.join(rng.choice('0123456789abcdefABCDEF') for _ in range(rng.randrange(1, 9)))
            lit = rng.choice(['', '0x', '0X']) + digits
            v = hex_value(SymStr([ord(c) for c in lit]))
            cases += 1
            if v != int(lit, 16):
                fails.append(('hex', lit, v, int(lit, 16)))
    finally:
        set_engine(None)
    return cases, fails


def run_all(seed, verbose=False, n=40):
    rng = random.Random(seed)
    cases = 0
    failures = []
    for name, fn in (('struct', validate_struct), ('ctypes', validate_ctypes), ('arith', validate_arith),
                     ('enum', validate_enum), ('render', validate_render), ('symstr', validate_symstr)):
        c, f = fn(rng, n if name != 'arith' else 6 * n)
        cases += c
        failures += f
        if verbose:
            print('%s: %d cases, %d failures' % (name, c, len(f)))
            for x in f[:5]:
                print('   ', x)
    return {'cases': cases, 'failures': [repr(f)[:300] for f in failures]}
