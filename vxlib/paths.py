"""Where the code under test lives.  /repo by default (that is what every registered command checks); VX_REPO lets the
seeded-change evaluation point the same checks at a scratch worktree without touching /repo."""
import os

REPO = os.path.abspath(os.environ.get('VX_REPO') or '/repo')
REPO_PREFIX = REPO.rstrip('/') + '/'
