"""Check driver: shards structures over processes, replays counterexamples, applies the
known-findings protocol, writes evidence.  Exit codes: 0 held / 1 VIOLATION / 2 inconclusive."""
import importlib
import json
import multiprocessing
import os
import random
import subprocess
import sys
import time
import traceback

HERE = os.path.dirname(os.path.dirname(os.path.abspath(__file__)))
# VX_OUT redirects what a run writes (used when the checks are pointed at a scratch worktree via VX_REPO, so that the
# committed evidence of /repo is not overwritten)
OUT = os.environ.get('VX_OUT') or HERE
EVIDENCE_DIR = os.path.join(OUT, 'evidence')
REPLAY_DIR = os.path.join(OUT, 'replays')
KNOWN = os.path.join(HERE, 'known_findings.json')


def load_check(pid):
    return importlib.import_module('vxlib.checks.%s' % pid.lower())


def _worker(args):
    pid, tier, idx, st, opts = args
    try:
        from vxlib.symx import run as sxrun
        mod = load_check(pid)
        if hasattr(mod, 'setup'):
            mod.setup(True)
        # every execution of the harness starts from the process-level state of a fresh interpreter (module- and
        # class-level containers and caches of the repo's modules as they are right after import)
        from vxlib import sweep
        sweep.snapshot_state()
        sxrun.BEFORE_PATH[:] = [sweep.reset_state]
        r = sxrun.explore(mod.run, st, **opts)
        r['index'] = idx
        return r
    except BaseException as e:        # noqa
        return {'index': idx, 'structure': st, 'status': 'harness-error',
                'reason': 'worker: %s: %s\n%s' % (type(e).__name__, e, traceback.format_exc(limit=10)),
                'paths': 0, 'aborted': 0, 'nontrivial': 0, 'labels': {}, 'violations': {}, 'nviol': {},
                'feas_queries': 0, 'prop_queries': 0, 'solver_s': 0.0, 'wall_s': 0.0, 'samples': [],
                'replay_samples': [], 'functions': [], 'max_decisions': 0, 'fallback_samples': [], 'unsupported_paths': 0}


def _replay_subprocess(payload, timeout=300):
    """run concrete replays in a clean interpreter (no shims, no proxies) -> list of results"""
    env = dict(os.environ)
    from vxlib.paths import REPO
    env['PYTHONPATH'] = REPO + ':' + HERE
    env['PYTHONDONTWRITEBYTECODE'] = '1'
    p = subprocess.run([sys.executable, '-m', 'vxlib', 'replay-batch'], input=json.dumps(payload),
                       capture_output=True, text=True, env=env, timeout=timeout, cwd=HERE)
    if p.returncode != 0:
        raise RuntimeError('replay subprocess failed: %s' % p.stderr[-2000:])
    return json.loads(p.stdout)


def replay_batch_main():
    from vxlib.symx import run as sxrun
    payload = json.load(sys.stdin)
    out = []
    mods = {}
    for item in payload:
        pid = item['property']
        if pid not in mods:
            mods[pid] = load_check(pid)
            if hasattr(mods[pid], 'setup'):
                mods[pid].setup(False)
        out.append(sxrun.run_concrete(mods[pid].run, item['structure'], item['values'], item.get('hints', ())))
    json.dump(out, sys.stdout)


def replay_main(path):
    from vxlib.symx import run as sxrun
    item = json.load(open(path))
    mod = load_check(item['property'])
    if hasattr(mod, 'setup'):
        mod.setup(False)
    r = sxrun.run_concrete(mod.run, item['structure'], item['values'], [item['label']])
    print(json.dumps({'label': item['label'], 'reproduced': item['label'] in r['failed'], 'failed': r['failed'],
                      'details': r['details'], 'error': r['error']}, indent=1))
    return 1 if item['label'] in r['failed'] else 0


def load_known(pid):
    if not os.path.exists(KNOWN):
        return {}
    ents = json.load(open(KNOWN))
    return {e['label']: e for e in ents if e['property'] == pid and e.get('status') == 'known'}


def main(pid, tier, jobs=None):
    t0 = time.time()
    seed = int(os.environ.get('VERIF_SEED', '0') or 0)
    mod = load_check(pid)
    jobs = jobs or int(os.environ.get('VX_JOBS', '0') or 0) or min(16, os.cpu_count() or 4)
    ev_path = os.path.join(EVIDENCE_DIR, '%s.json' % pid)
    os.makedirs(EVIDENCE_DIR, exist_ok=True)
    if os.path.exists(ev_path):
        os.unlink(ev_path)

    problems = []          # inconclusive reasons

    # 1. model validation (stubs against the real C functions)
    from vxlib.symx import validate
    vres = validate.run_all(seed)
    if vres['failures']:
        problems.append('stub validation failed: %s' % vres['failures'][:3])

    # 2. exploration
    if hasattr(mod, 'setup'):
        mod.setup(True)
    from vxlib import sweep
    sweep.snapshot_state()          # pristine process-level state of the repo's modules, inherited by the workers
    structures = mod.structures(tier)
    only = os.environ.get('VX_ONLY')          # debugging aid: VX_ONLY=kind=long keeps the structures with that key/value
    if only:
        k, _, v = only.partition('=')
        structures = [s for s in structures if str(s.get(k)) == v]
        if not structures:
            print('VX_ONLY=%s selects no structure' % only)
            return 2
    opts = dict(getattr(mod, 'EXPLORE_OPTS', {}))
    opts.update(getattr(mod, 'EXPLORE_OPTS_TIER', {}).get(tier, {}))
    if tier == 'quick':
        # a quick structure that is still exploring after three minutes (the unchanged tree needs seconds) is cut off
        # and reported as incomplete (exit 2 unless a counterexample was already found): a change that makes the path tree
        # explode must not make the check run for hours
        opts['max_seconds'] = min(opts.get('max_seconds', 600), int(os.environ.get('VX_QUICK_STRUCTURE_SECONDS', '180')))
    opts['seed'] = seed
    # second opinion: in the thorough tier every 25th solver-decided property query is re-discharged with cvc5 from the
    # SMT-LIB2 dump of the z3 solver state (VX_CROSS overrides the stride; 0 = off)
    stride = os.environ.get('VX_CROSS')
    opts['cross_every'] = int(stride) if stride is not None else (25 if tier == 'thorough' else 0)
    order = list(range(len(structures)))
    random.Random(seed).shuffle(order)
    weight = getattr(mod, 'weight', None)
    if weight:
        order.sort(key=lambda i: -weight(structures[i]))
    tasks = [(pid, tier, i, structures[i], opts) for i in order]
    results = [None] * len(structures)
    if jobs > 1 and len(tasks) > 1:
        ctx = multiprocessing.get_context('fork')
        with ctx.Pool(min(jobs, len(tasks)), maxtasksperchild=getattr(mod, 'TASKS_PER_CHILD', 50)) as pool:
            for r in pool.imap_unordered(_worker, tasks, chunksize=1):
                results[r['index']] = r
    else:
        for t in tasks:
            r = _worker(t)
            results[r['index']] = r

    # 3. merge
    labels = {}
    nviol = {}
    first_viol = {}       # label -> list of (structure, values, detail)
    functions = set()
    paths = aborted = nontrivial = 0
    feas = prop = 0
    solver_s = 0.0
    samples = []
    replay_samples = []
    cross = {'checked': 0, 'agree': 0, 'errors': 0, 'disagree': [], 'cvc5_s': 0.0}
    for r in results:
        cr = r.get('cross') or {}
        for k in ('checked', 'agree', 'errors'):
            cross[k] += cr.get(k, 0)
        cross['cvc5_s'] += cr.get('cvc5_s', 0.0)
        cross['disagree'] += cr.get('disagree', [])
    if cross['disagree']:
        problems.append('solver disagreement (z3 vs cvc5): %s' % cross['disagree'][:3])
    for r in results:
        if r['status'] != 'complete':
            problems.append('structure %s: %s: %s' % (json.dumps(r['structure'])[:200], r['status'], r['reason']))
        paths += r['paths']; aborted += r['aborted']; nontrivial += r['nontrivial']
        feas += r['feas_queries']; prop += r['prop_queries']; solver_s += r['solver_s']
        functions.update(r['functions'])
        for lb, d in r['labels'].items():
            dd = labels.setdefault(lb, {'ok': 0, 'viol': 0, 'reached': 0})
            for k in dd:
                dd[k] += d[k]
        for lb, n in r['nviol'].items():
            nviol[lb] = nviol.get(lb, 0) + n
        for lb, v in r['violations'].items():
            first_viol.setdefault(lb, []).append((r['structure'], v['values'], v['detail']))
        if r['status'] == 'complete' and r['paths'] - r['aborted'] == 0 and not getattr(mod, 'ALLOW_EMPTY', False):
            problems.append('structure %s: vacuous (no path satisfies the precondition)' % json.dumps(r['structure'])[:200])
        if r['status'] == 'complete' and r['labels'].get('reach', {}).get('reached', 0) == 0 \
                and r['paths'] - r['aborted'] > 0 and not getattr(mod, 'NO_REACH', False):
            problems.append('structure %s: reachability witness never reached' % json.dumps(r['structure'])[:200])
        if len(samples) < 6:
            for s in r['samples'][:1]:
                samples.append({'structure': r['structure'], **s})
        for s in r['replay_samples'][:2]:
            replay_samples.append((r['structure'], s))
    for lb in getattr(mod, 'REQUIRED_LABELS', []):
        d = labels.get(lb)
        if not d or d['ok'] + d['viol'] == 0:
            problems.append('vacuity: obligation %s was never evaluated' % lb)

    # 4. engine validation: replay sampled paths concretely, compare observations
    rng = random.Random(seed)
    rng.shuffle(replay_samples)
    replay_samples = replay_samples[:getattr(mod, 'REPLAY_PATHS', {'quick': 24, 'thorough': 96}).get(tier, 24)]
    paths_replayed = 0
    if replay_samples:
        payload = [{'property': pid, 'structure': st, 'values': s['values']} for st, s in replay_samples]
        try:
            rr = _replay_subprocess(payload)
            for (st, s), r in zip(replay_samples, rr):
                paths_replayed += 1
                if r['error'] and not r['error'].startswith('abort'):
                    problems.append('path replay error: %s (structure %s)' % (r['error'][:500], json.dumps(st)[:120]))
                elif r['valid'] and r['observed'] != s['observed']:
                    problems.append('path replay mismatch: engine predicted %s, real code produced %s (structure %s, inputs %s)' % (
                        json.dumps(s['observed'])[:600], json.dumps(r['observed'])[:600], json.dumps(st)[:120],
                        json.dumps(s['values'])[:300]))
        except Exception as e:
            problems.append('path replay failed: %s' % e)

    # 4b. concolic fallback: paths the engine could not carry contribute the model of their path condition as a
    # concrete input; the harness is run on it concretely and any failing obligation is a (reproduced) counterexample
    fb = []
    for r in results:
        for vals in r.get('fallback_samples', [])[:6]:
            fb.append((r['structure'], vals))
    rng.shuffle(fb)
    fb = fb[:200]
    fallback_runs = 0
    if fb:
        try:
            rr = _replay_subprocess([{'property': pid, 'structure': st, 'values': vals} for st, vals in fb], timeout=900)
            for (st, vals), r in zip(fb, rr):
                fallback_runs += 1
                if r['valid'] and not r['error']:
                    for lb in r['failed']:
                        first_viol.setdefault(lb, []).insert(0, (st, vals, r['details'].get(lb)))
                        nviol[lb] = nviol.get(lb, 0) + 1
        except Exception as e:
            problems.append('concolic fallback failed: %s' % e)

    # 5. counterexamples: replay, then known-findings protocol
    known = load_known(pid)
    out_lines = []
    violations = 0
    known_hit = []
    os.makedirs(os.path.join(REPLAY_DIR, pid), exist_ok=True)
    for lb in sorted(first_viol):
        cands = first_viol[lb][:3]
        payload = [{'property': pid, 'structure': st, 'values': vals, 'hints': [lb]} for st, vals, _ in cands]
        try:
            rr = _replay_subprocess(payload)
        except Exception as e:
            problems.append('counterexample replay failed for %s: %s' % (lb, e)); continue
        hit = None
        for (st, vals, detail), r in zip(cands, rr):
            if lb in r['failed']:
                hit = (st, vals, detail, r); break
        if hit is None:
            problems.append('counterexample for %s does not reproduce on the real code (engine or stub wrong): '
                            'structure %s values %s replay %s' % (lb, json.dumps(cands[0][0])[:200],
                                                                  json.dumps(cands[0][1])[:300], json.dumps(rr[0])[:400]))
            continue
        st, vals, detail, r = hit
        fn = os.path.join(REPLAY_DIR, pid, lb.replace('/', '__') + '.json')
        with open(fn, 'w') as f:
            json.dump({'property': pid, 'label': lb, 'structure': st, 'values': vals, 'detail': detail,
                       'observed_detail': r['details'].get(lb), 'how': './vx replay ' + fn}, f, indent=1)
        kf = match_known(known, lb)
        if kf is not None:
            known_hit.append(lb)
            out_lines.append('KNOWN-FINDING: property=%s %s %s' % (pid, lb, kf.get('what', '')))
        else:
            violations += 1
            out_lines.append('VIOLATION property=%s replay=%s' % (pid, fn))
            out_lines.append('  label=%s paths=%d detail=%s' % (lb, nviol.get(lb, 0), json.dumps(r['details'].get(lb))[:300]))

    # 6. optional static part of the check
    extra = {}
    if hasattr(mod, 'post'):
        try:
            extra = mod.post(tier, results) or {}
        except Exception as e:
            problems.append('post step failed: %s\n%s' % (e, traceback.format_exc(limit=6)))
        for p in extra.pop('problems', []):
            problems.append(p)

    obligations = sum(d['ok'] + d['viol'] for d in labels.values())
    discharged = sum(d['ok'] for d in labels.values())
    wall = time.time() - t0
    ev = {
        'property_id': pid, 'tier': tier, 'seed': seed, 'level': 'other',
        'coverage': {
            'explanation': 'bounded symbolic execution of the real /repo code by proxy values; every branch '
                           'feasibility and every property obligation is decided by z3 (QF_BV); unsat on every path of a '
                           'completely explored path tree = holds for all values inside the stated bounds',
            'evaluations': paths,
            'distinct_nontrivial': nontrivial,
            'rule': 'one evaluation = one feasible execution path of the harness through the real code (distinct by '
                    'construction: path conditions are pairwise disjoint); non-trivial = the path took at least one '
                    'solver-decided branch with two feasible sides and discharged at least one obligation',
            'samples': samples,
            'obligations': obligations, 'discharged': discharged,
            'exhaustive': bool(getattr(mod, 'EXHAUSTIVE', False)) and not problems,
            'structures': len(structures),
            'paths_outside_precondition': aborted,
            'functions_encoded': sorted(functions),
            'bounds': mod.bounds(tier) if hasattr(mod, 'bounds') else {},
            'outside_claim': getattr(mod, 'OUTSIDE', []),
            'stubs': getattr(mod, 'STUBS', []),
            'queries': {'feasibility': feas, 'property': prop},
            'solver_s': round(solver_s, 2),
            'solver': 'z3 ' + _z3_version(),
            'paths_replayed': paths_replayed,
            'cvc5_cross_check': {'queries_rechecked': cross['checked'], 'agree': cross['agree'], 'cvc5_errors_or_unknown': cross['errors'],
                                 'disagreements': len(cross['disagree']), 'cvc5_s': round(cross['cvc5_s'], 1)},
            'concolic_fallback_runs': fallback_runs,
            'stub_validation': {'cases': vres['cases'], 'failures': len(vres['failures'])},
            'vacuity': {lb: d['ok'] + d['viol'] + d['reached'] for lb, d in sorted(labels.items())},
            'violated_labels': {lb: nviol[lb] for lb in sorted(nviol)},
            'known_findings_hit': known_hit,
            'inconclusive': problems[:20],
            **extra,
        },
        'assumptions': getattr(mod, 'ASSUMPTIONS', []),
        'wall_s': round(wall, 2),
        'violations': violations,
    }
    with open(ev_path, 'w') as f:
        json.dump(ev, f, indent=1, default=str)
    for l in out_lines:
        print(l)
    print('%s %s: structures=%d paths=%d (outside precondition %d) obligations=%d discharged=%d queries=%d solver=%.1fs wall=%.1fs' % (
        pid, tier, len(structures), paths, aborted, obligations, discharged, feas + prop, solver_s, wall))
    if os.environ.get('VX_PROFILE'):
        top = sorted(results, key=lambda r: -r["wall_s"])[:25]
        for r in top:
            print('  PROFILE paths=%d wall=%.1fs %s' % (r['paths'], r['wall_s'], json.dumps(r['structure'])[:120]))
    if problems:
        print('INCONCLUSIVE (%d):' % len(problems))
        for p in problems[:12]:
            print('  - ' + p[:1500])
    if violations:
        return 1
    if problems:
        return 2
    print('%s: property held on everything explored%s' % (pid, ' (known findings listed above)' if known_hit else ''))
    return 0


def match_known(known, label):
    if label in known:
        return known[label]
    return None


def _z3_version():
    import z3
    return z3.get_version_string()
