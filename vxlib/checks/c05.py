"""C05 - per-thread results are invariant under interleaving of threads."""
import dataclasses
import itertools
from oracle import kdebug as K
from oracle import pairing as P
from vxlib import sweep
from vxlib.symx import And, Or, Not, SymMap, SymInt, AtomStr
from vxlib.checks import c04

PROPERTY = 'C05'
STUBS = c04.STUBS + ['SymMap write log tagged with the feeding thread (who learned which name)']
ASSUMPTIONS = ['thread ids are free 64-bit, pairwise distinct between the per-thread programs',
               'renderings are compared for decoders that do not read tables written by other threads (the property\'s own '
               'exemption): THREAD_TERMINATE and the dyld string users are not part of the alphabet',
               'name strings: 4 symbolic non-NUL ASCII bytes']
OUTSIDE = ['programs longer than the bounds; more than 3 threads',
           'final contents of the by-design shared lookup tables (two threads may write one key); their writes are '
           'compared per writing thread instead']
EXPLORE_OPTS = {'max_paths': 100000, 'max_seconds': 900, 'hash_collide': True}

# event kinds: name, qualifier
KINDS = {
    'As': ('BSC_getpid', 1), 'Ae': ('BSC_getpid', 2), 'Rs': ('BSC_read', 1), 'Re': ('BSC_read', 2), 'An': ('BSC_getpid', 0),
    'Ss': ('TRACE_DATA_EXEC', 1), 'Se': ('TRACE_DATA_EXEC', 2),
    'ND': ('TRACE_DATA_NEWTHREAD', 0), 'NS': ('TRACE_STRING_NEWTHREAD', 0),
    'ED': ('TRACE_DATA_EXEC', 0), 'ES': ('TRACE_STRING_EXEC', 0), 'TN': ('TRACE_STRING_THREADNAME', 0),
    'TP': ('TRACE_DATA_THREAD_TERMINATE_PID', 0), 'L': ('VFS_LOOKUP', 3), 'K': ('proc_exit', 1), 'Ke': ('proc_exit', 2),
    'TT': ('TRACE_DATA_THREAD_TERMINATE', 0),
    'PH': ('PERF_STK_UHdr', 0), 'PU': ('PERF_STK_UData', 0),      # stack records logged outside a sample window
}
SHARED_TABLE_READERS = {'TraceDataThreadTerminate'}      # renders from tables other threads write: text not compared
STRINGY = {'NS', 'ES', 'TN'}


def setup(symbolic):
    c04.setup(symbolic)


def bounds(tier):
    return {'long programs': 'a thread running two consecutive operations (4 events) interleaved in every way with a 1..2-event '
                             'program of another thread',
            'swap': 'pre-states of C04\'s one-step generator on two threads (sequences of <= %d events) and every ordered pair '
                    'of events e1 (thread 1), e2 (thread 2) over %d event kinds; both orders run, per-event traces and the '
                    'whole parser state compared' % (1 if tier == 'quick' else 2, len(KINDS)),
            'interleavings': 'every interleaving of 2 threads x 2 events and (thorough) 3 threads x 1..2 events over the '
                             'name-learning kinds and a syscall pair, against the sequential run',
            'values': 'thread ids, pids, payload words, timestamps, name bytes free'}


def _programs(tier):
    base = [['ND', 'NS'], ['ED', 'ES'], ['As', 'Ae'], ['ND', 'ES'], ['TN', 'NS'], ['Rs', 'Re'], ['ND', 'ND'], ['NS', 'NS'],
            ['TT'], ['TT', 'TT'], ['PH', 'PU'], ['PH', 'PU', 'PU']]
    if tier == 'thorough':
        base += [['ED', 'NS'], ['TP', 'NS'], ['L', 'Re'], ['Ss', 'Se'], ['ND', 'TN'], ['ES', 'ES'], ['ND'], ['NS'], ['ED'], ['ES']]
    return base


def _interleavings(lens):
    """all orders of thread indices with thread k occurring lens[k] times"""
    out = set()
    pool = []
    for k, n in enumerate(lens):
        pool += [k] * n
    for p in set(itertools.permutations(pool)):
        out.add(p)
    return sorted(out)


def structures(tier):
    sts = []
    progs = _programs(tier)
    for p1 in progs:
        for p2 in progs:
            if tier == 'quick' and not ({'ND', 'NS', 'ED', 'ES', 'TT', 'PH'} & set(p1 + p2)) and (p1, p2) != (['As', 'Ae'], ['Rs', 'Re']):
                continue
            for order in _interleavings([len(p1), len(p2)]):
                if list(order) == [0] * len(p1) + [1] * len(p2):
                    continue
                sts.append({'kind': 'inter', 'progs': [p1, p2], 'order': list(order)})
    # a thread that completes one operation and starts the next while another thread's records arrive in between
    for long_ in (['As', 'Ae', 'As', 'Ae'], ['Rs', 'Re', 'As', 'Ae']):
        for short in (['An'], ['Rs', 'Re'], ['ND']):
            if tier == 'quick' and short == ['ND'] and long_[0] == 'Rs':
                continue
            for order in _interleavings([len(long_), len(short)]):
                if list(order) == [0] * len(long_) + [1] * len(short):
                    continue
                sts.append({'kind': 'inter', 'progs': [long_, short], 'order': list(order)})
    if tier == 'thorough':
        trio = [['ND', 'NS'], ['ED', 'ES'], ['ND'], ['NS'], ['As', 'Ae']]
        for p1, p2, p3 in itertools.product(trio, repeat=3):
            if len(p1) + len(p2) + len(p3) > 5:
                continue
            for order in _interleavings([len(p1), len(p2), len(p3)]):
                if list(order) == [0] * len(p1) + [1] * len(p2) + [2] * len(p3):
                    continue
                sts.append({'kind': 'inter', 'progs': [p1, p2, p3], 'order': list(order)})
    # swap commutation from pre-states
    pre_kinds = ['As', 'Ss', 'An', 'Ae'] if tier == 'quick' else ['As', 'Ss', 'An', 'Ae', 'Rs', 'K']
    pres = [[]] + [[k] for k in pre_kinds if KINDS[k][1] == 1]
    if tier == 'thorough':
        pres += [[a, b] for a in pre_kinds if KINDS[a][1] == 1 for b in pre_kinds]
    ev_kinds = ['As', 'Ae', 'An', 'Ss', 'Se', 'ND', 'NS', 'ED', 'ES', 'TN', 'TT', 'PH', 'PU'] if tier == 'quick' else sorted(KINDS)
    for pa in pres:
        for pb in pres:
            if pa and pb and pa != pb and (tier == 'quick' or len(pa) + len(pb) > 2):
                continue        # two different non-empty pre-states only when both are single events (thorough)
            for e1 in ev_kinds:
                for e2 in ev_kinds:
                    sts.append({'kind': 'swap', 'pre': [pa, pb], 'e': [e1, e2]})
    return sts


def weight(st):
    return len(st.get('order', [])) + 1


def _event(ctx, tag, kind, tid):
    by_id, by_name = sweep.codes()
    name, q = KINDS[kind]
    ts = ctx.int('ts_' + tag)
    if kind in STRINGY or kind == 'L':
        txt = ctx.bytes('s_' + tag, 4)
        for i in range(4):
            ctx.assume(And(txt[i] != 0, txt[i] < 0x80))
        data = (K.to_le(ctx.int('v_' + tag), 8) + txt + bytes(20)) if kind == 'L' else (txt + bytes(28))
        obj = sweep.make_event_data(ts, data, tid, by_name[name] | q)
    else:
        words = [ctx.int('w%d_%s' % (j, tag)) for j in range(4)]
        obj = sweep.make_event(ts, words, tid, by_name[name] | q)
    return obj


class Obs:
    """what one run reports per thread"""

    def __init__(self, n):
        self.traces = [[] for _ in range(n)]     # per thread: (type name, ids of ktraces, text)
        self.writes = [[] for _ in range(n)]     # per thread: (table, key, value)
        self.error = None


def _run(ctx, events_in_order, nthreads):
    """events_in_order: list of (thread index, event object).  -> Obs, parser"""
    p = c04._parser(ctx)
    tables = {}
    if ctx.symbolic:
        p.tids_names = SymMap(name='tids_names')
        p.global_strings = SymMap(name='global_strings')
        tables = {'threads_pids': p.threads_pids, 'pids_names': p.pids_names, 'tids_names': p.tids_names}
    else:
        p.threads_pids, p.pids_names, p.tids_names = _LogDict('threads_pids'), _LogDict('pids_names'), _LogDict('tids_names')
        tables = {'threads_pids': p.threads_pids, 'pids_names': p.pids_names, 'tids_names': p.tids_names}
    obs = Obs(nthreads)
    for k, ev in events_in_order:
        for t in tables.values():
            t.writer = k
        try:
            ret = p.feed(ev)
        except Exception as e:      # noqa
            __import__('vxlib.symx.core', fromlist=['x']).proxy_rejected(e)
            obs.error = (k, e)
            obs.traces[k].append(('!error', type(e).__name__, ''))
            continue
        if ret is not None:
            obs.traces[k].append((type(ret).__name__, [id(x) for x in ret.ktraces], str(ret)))
    for nm, t in tables.items():
        for op, key, val, who in t.log:
            if who is not None:
                obs.writes[who].append((nm, op, key, val))
    return obs, p


class _LogDict(dict):
    def __init__(self, name):
        super().__init__()
        self.name, self.log, self.writer = name, [], None

    def __setitem__(self, k, v):
        self.log.append(('set', k, v, self.writer))
        super().__setitem__(k, v)


def _text_eq(ctx, a, b):
    if ctx.symbolic:
        return sweep.pieces_equal(ctx.template(a), ctx.template(b))
    return a == b


def _val_eq(ctx, a, b):
    if isinstance(a, str) and isinstance(b, str):
        return _text_eq(ctx, a, b)
    r = (a == b)
    return False if r is NotImplemented else r


def _compare_obs(ctx, L, o1, o2, nthreads):
    for k in range(nthreads):
        t1, t2 = o1.traces[k], o2.traces[k]
        ctx.check(L + '/trace-count', len(t1) == len(t2), 'thread %d: %d vs %d traces' % (k, len(t1), len(t2)))
        for x, y in zip(t1, t2):
            ctx.check(L + '/trace-kind-and-window', x[0] == y[0] and x[1] == y[1], 'thread %d: %s vs %s' % (k, x[0], y[0]))
            if x[0] not in SHARED_TABLE_READERS:
                ctx.check(L + '/trace-text', _text_eq(ctx, x[2], y[2]), 'thread %d' % k)
        w1, w2 = o1.writes[k], o2.writes[k]
        ctx.check(L + '/learned-count', len(w1) == len(w2), 'thread %d learned %d vs %d facts' % (k, len(w1), len(w2)))
        for x, y in zip(w1, w2):
            same = And(x[0] == y[0], x[1] == y[1], _val_eq(ctx, x[2], y[2]), _val_eq(ctx, x[3], y[3]))
            lab = L + '/learned'
            if x[0] == 'pids_names':
                lab = L + '/learned-process-name'
            ctx.check(lab, same, 'thread %d: table %s: key/value differ between the two orders' % (k, x[0]))


def run(ctx, st):
    if st['kind'] == 'inter':
        return run_inter(ctx, st)
    return run_swap(ctx, st)


def _tids(ctx, n):
    tids = [ctx.int('tid%d' % k) for k in range(n)]
    for i in range(n):
        for j in range(i):
            ctx.assume(tids[i] != tids[j])
    return tids


def run_inter(ctx, st):
    progs = st['progs']
    n = len(progs)
    tids = _tids(ctx, n)
    evs = [[_event(ctx, '%d_%d' % (k, i), kind, tids[k]) for i, kind in enumerate(pr)] for k, pr in enumerate(progs)]
    seq = [(k, e) for k in range(n) for e in evs[k]]
    pos = [0] * n
    inter = []
    for k in st['order']:
        inter.append((k, evs[k][pos[k]])); pos[k] += 1
    o_seq, _ = _run(ctx, seq, n)
    o_int, _ = _run(ctx, inter, n)
    # an error in the sequential run means the program itself is not in-domain for its decoder (C07's subject)
    if o_seq.error is not None:
        ctx.reach('sequential-run-fails')
        ctx.reach()
        return
    kinds = {k for pr in progs for k in pr}
    slot = 'newthread-slot' if 'NS' in kinds and 'ND' in kinds else 'exec-slot' if 'ES' in kinds and ({'ED', 'Ss'} & kinds) else None
    L = 'C05/interleaving'
    _compare_obs(ctx, L, o_seq, o_int, n)
    ctx.reach()


def run_swap(ctx, st):
    tids = _tids(ctx, 2)
    # pre-state from the pairing specification, installed into two parsers
    state = []
    pre_evs = []
    nn = 0
    for k, seq in enumerate(st['pre']):
        for kind in seq:
            obj = _event(ctx, 'p%d' % nn, kind, tids[k]); nn += 1
            name, q = KINDS[kind]
            by_id, by_name = sweep.codes()
            e = P.Ev(obj, tids[k], by_name[name], q, name, True)
            pre_evs.append(e)
            state, _ = P.step(state, e)
    e1 = _event(ctx, 'e1', st['e'][0], tids[0])
    e2 = _event(ctx, 'e2', st['e'][1], tids[1])

    def go(order):
        p = c04._parser(ctx)
        if ctx.symbolic:
            p.tids_names = SymMap(name='tids_names')
            p.global_strings = SymMap(name='global_strings')
        else:
            p.threads_pids, p.pids_names, p.tids_names = _LogDict('a'), _LogDict('b'), _LogDict('c')
        c04._install(p, P.copy_state(state))
        obs = Obs(2)
        tabs = [p.threads_pids, p.pids_names, p.tids_names]
        for k, ev in order:
            for t in tabs:
                t.writer = k
            try:
                ret = p.feed(ev)
            except Exception as e:      # noqa
                __import__('vxlib.symx.core', fromlist=['x']).proxy_rejected(e)
                obs.error = (k, e)
                obs.traces[k].append(('!error', type(e).__name__, ''))
                continue
            if ret is not None:
                obs.traces[k].append((type(ret).__name__, [id(x) for x in ret.ktraces], str(ret)))
        for t, nm in zip(tabs, ('threads_pids', 'pids_names', 'tids_names')):
            for op, key, val, who in t.log:
                if who is not None:
                    obs.writes[who].append((nm, op, key, val))
        return obs, p
    o12, p12 = go([(0, e1), (1, e2)])
    o21, p21 = go([(1, e2), (0, e1)])
    if o12.error is not None and o21.error is not None and type(o12.error[1]) is type(o21.error[1]) and o12.error[0] == o21.error[0]:
        ctx.reach('both-orders-fail-alike')      # an event that is not in-domain on its own (C07's subject)
        ctx.reach()
        return
    L = 'C05/swap'
    _compare_obs(ctx, L, o12, o21, 2)
    # whole-parser state: window tables and every other attribute except the by-design shared lookup tables
    shared = {'threads_pids', 'pids_names', 'tids_names', 'global_strings', 'trace_codes', 'handlers', 'qualifiers_actions'}
    for attr in sorted(set(vars(p12)) | set(vars(p21))):
        if attr in shared:
            continue
        a, b = getattr(p12, attr, None), getattr(p21, attr, None)
        lab = L + '/state/' + attr
        ctx.check(lab, _deep_eq(a, b), 'parser attribute %s differs between the two orders' % attr)
    ctx.reach()


def _deep_eq(a, b):
    """structural equality with events compared by identity (no solver involvement needed: both runs share the events)"""
    from pykdebugparser.kevent import Kevent
    if a is b:
        return True
    if isinstance(a, Kevent) or isinstance(b, Kevent):
        return False
    if isinstance(a, dict) and isinstance(b, dict):
        ka, kb = list(a.keys()), list(b.keys())
        if len(ka) != len(kb):
            return False
        for k in ka:
            m = [k2 for k2 in kb if k2 is k or bool(k2 == k)]
            if len(m) != 1 or not _deep_eq(a[k], b[m[0]]):
                return False
        return True
    if isinstance(a, (list, tuple)) and isinstance(b, (list, tuple)):
        return len(a) == len(b) and all(_deep_eq(x, y) for x, y in zip(a, b))
    if dataclasses.is_dataclass(a) and dataclasses.is_dataclass(b):
        if type(a) is not type(b):
            return False
        return all(_deep_eq(getattr(a, f.name), getattr(b, f.name)) for f in dataclasses.fields(a))
    if isinstance(a, (SymInt, AtomStr)) or isinstance(b, (SymInt, AtomStr)):
        r = (a == b)
        return False if r is NotImplemented else bool(r)
    if callable(a) and callable(b):
        return True
    return a == b
