"""C17 - every registered decoder is reachable; X and X_nocancel decode alike."""
import z3
from vxlib import sweep
from vxlib.symx import And, Or, Not, SymTable, SymMap, OutOfDomain, Unsupported

PROPERTY = 'C17'
STUBS = ['struct.unpack model', 'the bundled code table wrapped as SymTable (k-way fork over its ids)',
         'handlers wrapped by recording wrappers (dispatch is observed, the handler body is not judged here)',
         'enum forks, atoms, errno SymTable, AST merge rewrites (twins part)']
ASSUMPTIONS = ['event ids come from from_kd_buf (low two bits clear)']
OUTSIDE = ['whether a reached decoder renders correctly (C07, C09, C10)']
EXPLORE_OPTS = {'max_paths': 50000, 'max_seconds': 900}
TASKS_PER_CHILD = 8


def setup(symbolic):
    if symbolic:
        from vxlib.symx import shims, loader
        loader.install()
        shims.install()


def bounds(tier):
    return {'dispatch': 'one event with a free 32-bit debug id (all 2^30 ids with clear qualifier bits), sharded by class '
                        'byte (classes cut into id ranges of at most 100 table ids); the shards partition the id space',
            'twins': 'for each registered X_nocancel: START a0..a3, END r0..r3 free 64-bit, X and X_nocancel run on the '
                     'same words in one path; ' + ('no lookups' if tier == 'quick' else '0 and 1 lookup (4 symbolic bytes)')}


def _table():
    by_id, by_name = sweep.codes()
    return by_id


def structures(tier):
    t = _table()
    classes = sorted({i >> 24 for i in t})
    sts = []
    for c in classes:
        ids = sorted(i for i in t if i >> 24 == c)
        # a class is cut into id ranges holding at most 100 table ids each; the ranges partition the class
        cuts = [c << 24] + [ids[j] for j in range(100, len(ids), 100)] + [(c + 1) << 24]
        for lo, hi in zip(cuts, cuts[1:]):
            sts.append({'kind': 'dispatch', 'class': c, 'lo': lo, 'hi': hi - 1})
    sts.append({'kind': 'dispatch', 'class': None, 'known': classes})
    sts.append({'kind': 'static'})
    from pykdebugparser.traces_parser import TracesParser
    hs = TracesParser({}, {}, {}).handlers
    for n in sorted(hs):
        if n.endswith('_nocancel'):
            sts.append({'kind': 'twin', 'name': n, 'lookups': 0})
            if tier == 'thorough' or sweep.weight({'name': n}) == 1:
                sts.append({'kind': 'twin', 'name': n, 'lookups': 0, 'after': 'base'})
                sts.append({'kind': 'twin', 'name': n, 'lookups': 0, 'after': 'twin'})
            else:
                sts.append({'kind': 'twin', 'name': n, 'lookups': 0, 'after': 'base', 'failing': True})
                sts.append({'kind': 'twin', 'name': n, 'lookups': 0, 'after': 'twin', 'failing': True})
            if tier == 'thorough':
                sts.append({'kind': 'twin', 'name': n, 'lookups': 1, 'len': 4})
            # paths the proxies cannot see into (text that looks like part of the rendering itself): concrete representatives
            sts.append({'kind': 'twin', 'name': n, 'lookups': 1, 'concrete_path': True})
    return sts


def weight(st):
    if st['kind'] == 'dispatch':
        return 100
    return sweep.weight(st)


class _BigTable(SymTable):
    sx_name = 'trace.codes'
    sx_small = 1 << 30


def run(ctx, st):
    if st['kind'] == 'dispatch':
        return run_dispatch(ctx, st)
    if st['kind'] == 'static':
        return run_static(ctx, st)
    return run_twin(ctx, st)


def run_static(ctx, st):
    """finite table facts, by inspection of the dict objects (no symbolic input)"""
    import importlib
    import itertools
    from pykdebugparser.traces_parser import TracesParser
    t = _table()
    hs = TracesParser({}, {}, {}).handlers
    names_clear = {v for k, v in t.items() if k & 3 == 0}
    for n in sorted(hs):
        ctx.check('C17/in-table/%s' % n, n in names_clear, 'registered decoder whose name has no id with clear qualifier bits')
    fams = {}
    for m in ('bsd', 'dyld', 'fsystem', 'mach', 'perf', 'trace', 'turnstile'):
        fams[m] = importlib.import_module('pykdebugparser.trace_handlers.' + m).handlers
    allnames = set()
    for m in fams:
        allnames |= set(fams[m])
    ctx.check('C17/families-cover-handlers', allnames == set(hs))
    for x, y in itertools.combinations(sorted(fams), 2):
        for n in sorted(set(fams[x]) & set(fams[y])):
            ctx.check('C17/family-overlap/%s' % n, False, '%s and %s both claim %s' % (x, y, n))
    ctx.check('C17/families-disjoint', sum(len(f) for f in fams.values()) == len(allnames))
    # the bundled table a request gets is its own: what an earlier caller did to the table it was handed (e.g. merged a
    # device-specific codes file into it) does not make a decoder unreachable for the next request
    from pykdebugparser.trace_codes import default_trace_codes
    first = default_trace_codes()
    pristine = dict(first)
    for k in list(first)[:2000]:
        first[k] = 'renamed_by_an_earlier_caller'
    first[0x40c0018] = 'BSC_close'
    again = default_trace_codes()
    ctx.check('C17/bundled-table-independent-of-earlier-callers', dict(again) == pristine,
              '%d ids differ after an earlier caller edited its copy' % sum(1 for k in pristine if again.get(k) != pristine[k]))
    ctx.reach()


def run_dispatch(ctx, st):
    from pykdebugparser.traces_parser import TracesParser
    from pykdebugparser.kevent import from_kd_buf
    from oracle import kdebug as K
    t = _table()
    debugid = ctx.int('debugid', 32)
    if st['class'] is not None:
        ctx.assume((debugid >> 24) == st['class'])
        ctx.assume(And(debugid >= st['lo'], debugid <= st['hi']))
    else:
        for c in st['known']:
            ctx.assume((debugid >> 24) != c)
    ctx.assume((debugid & 3) == 0)      # NONE qualifier: dispatched alone
    ev = from_kd_buf(K.pack_rec(5, [0, 0, 0, 0], sweep.TID, debugid))
    table = _BigTable(t) if ctx.symbolic else t
    p = TracesParser(table, SymMap() if ctx.symbolic else {}, SymMap() if ctx.symbolic else {})
    called = []
    for nm in list(p.handlers):
        p.handlers[nm] = (lambda nm: (lambda parser, events: called.append(nm) or ('trace', nm)))(nm)
    ret = p.feed(ev)
    # specification: dispatched iff the id is in the table and its name is registered; to exactly that decoder
    if ctx.symbolic:
        eid = ev.eventid
        if called:
            nm = called[0]
            ctx.check('C17/dispatch/name-of-id', And(len(called) == 1, Or(*[eid == k for k, v in t.items() if v == nm])))
            ctx.reach('reached:' + nm)
        else:
            # not dispatched: the id is not one whose name has a decoder
            regs = [k for k, v in t.items() if v in p.handlers and (st['class'] is None or k >> 24 == st['class'])]
            ctx.check('C17/dispatch/registered-id-dispatched', And(*[eid != k for k in regs]) if regs else True)
            ctx.check('C17/dispatch/no-trace-without-decoder', ret is None)
    else:
        eid = ev.eventid
        nm = t.get(eid)
        if called:
            ctx.check('C17/dispatch/name-of-id', len(called) == 1 and called[0] == nm)
        else:
            ctx.check('C17/dispatch/registered-id-dispatched', nm not in p.handlers)
            ctx.check('C17/dispatch/no-trace-without-decoder', ret is None)
    ctx.reach()


def run_twin(ctx, st):
    name = st['name']
    base = name[:-len('_nocancel')]
    from pykdebugparser.traces_parser import TracesParser
    hs = TracesParser({}, {}, {}).handlers
    L = 'C17/%s' % base
    if base not in hs:
        ctx.check(L + '-unregistered', False, '%s is decoded but %s is not' % (name, base))
        ctx.reach()
        return
    a = [ctx.int('a%d' % i) for i in range(4)]
    r = [ctx.int('r%d' % i) for i in range(4)]
    lookups = []
    if st.get('concrete_path'):
        call = base[4:] if base.startswith(('BSC_', 'MSC_')) else base
        call = call[4:] if call.startswith('sys_') else call
        text = ('/tmp/f%s(3), %s_nocancel(2) ), return: 5' % (call, call)).encode()
        lookups = [(text, ctx.int('vnode'))]
    elif st['lookups']:
        text = ctx.bytes('path', st['len'])
        for i in range(st['len']):
            ctx.assume(And(text[i] != 0, text[i] < 0x80, text[i] != 0x22, text[i] != 0x5c))
        lookups = [(text, ctx.int('vnode'))]
    prior = []
    if st.get('after'):
        # the same parser handled another call of the base (or of the twin) before - possibly one the decoder rejects
        b = [ctx.int('b%d' % i) for i in range(4)]
        prior = [(base if st['after'] == 'base' else name, b, [0, 0, 0, 0])]
        if st.get('failing'):
            # only earlier calls the decoder rejects (keeps decoders with hundreds of argument classes affordable)
            o0 = sweep.run_window(ctx, prior[0][0], b, [0, 0, 0, 0])
            ctx.assume(o0.kind != 'text')
    o1 = sweep.run_window(ctx, base, a, r, lookups, prior=prior)
    o2 = sweep.run_window(ctx, name, a, r, lookups, prior=prior)
    if o1.kind != 'text' or o2.kind != 'text':
        ctx.check(L + '/same-outcome', o1.kind == o2.kind and type(o1.exc) is type(o2.exc),
                  '%s: %s / %s: %s' % (base, o1.kind, name, o2.kind))
        ctx.reach()
        return
    ctx.observe('texts', [o1.text, o2.text])
    c1, c2 = sweep.split_call(o1.pieces), sweep.split_call(o2.pieces)
    ctx.check(L + '/name-suffix', c1.ok and c2.ok and c2.name == c1.name + '_nocancel', '%r vs %r' % (c1.name, c2.name))
    same = len(c1.params) == len(c2.params)
    cond = And(*[sweep.pieces_equal(p, q) for p, q in zip(c1.params, c2.params)]) if same else False
    ctx.check(L + '/same-call', cond)
    ctx.check(L + '/same-result', sweep.pieces_equal(c1.rest, c2.rest))
    ctx.reach()


def post(tier, results):
    """table-level facts (finite, decided by direct inspection of the dict objects) and the reachability set"""
    import importlib
    import itertools
    from pykdebugparser.traces_parser import TracesParser
    problems = []
    t = _table()
    hs = TracesParser({}, {}, {}).handlers
    reached = set()
    for r in results:
        for lb in r['labels']:
            if lb.startswith('reached:'):
                reached.add(lb[len('reached:'):])
    fams = {}
    for m in ('bsd', 'dyld', 'fsystem', 'mach', 'perf', 'trace', 'turnstile'):
        fams[m] = importlib.import_module('pykdebugparser.trace_handlers.' + m).handlers
    overlap = {}
    for x, y in itertools.combinations(sorted(fams), 2):
        c = set(fams[x]) & set(fams[y])
        if c:
            overlap['%s/%s' % (x, y)] = sorted(c)
    unreach = sorted(set(hs) - reached)
    out = {'registered_decoders': len(hs), 'reached_by_symbolic_dispatch': len(reached & set(hs)),
           'unreachable': unreach, 'family_overlap': overlap}
    # these table-level facts are violations of the property, reported through the same protocol by the
    # 'static' structure below; here they only make the run inconclusive if the two views disagree
    names_clear = {v for k, v in t.items() if k & 3 == 0}
    static_unreach = sorted(n for n in hs if n not in names_clear)
    if static_unreach != unreach:
        problems.append('symbolic dispatch reached %d decoders but the table names %d reachable ones: %s vs %s' % (
            len(reached), len(hs) - len(static_unreach), unreach[:5], static_unreach[:5]))
    out['problems'] = problems
    return out
