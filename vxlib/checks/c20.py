"""C20 - composite traces reflect exactly the records nested in their window."""
import itertools
from oracle import kdebug as K
from oracle import darwin as D
from vxlib import sweep
from vxlib.symx import And, Or, Not, Implies, SymMap, OutOfDomain, GuardedList
from vxlib.checks import c11

PROPERTY = 'C20'
STUBS = ['struct.unpack model', 'enum forks', 'AST merge rewrites (flag lists as guarded lists)', 'SymMap tables',
         'the real sorted() runs on proxy ints (every comparison a solver-decided fork)']
ASSUMPTIONS = ['image-map records carry concrete, pairwise distinct uuid bytes', 'stack header count N <= 9',
               'fields are read from the trace objects (attribute names as in the current source) and, for the page fault, '
               'cross-checked against the rendered text']
OUTSIDE = ['more than 2 nested records of a kind; more than one unrelated record between nested records']
EXPLORE_OPTS = {'max_paths': 60000, 'max_seconds': 900}
TID = sweep.TID
RF = ['RealFaultAddressInternal', 'RealFaultAddressPurgeable', 'RealFaultAddressExternal', 'RealFaultAddressSharedCache']
DECODED_RF = {'RealFaultAddressInternal', 'RealFaultAddressExternal', 'RealFaultAddressSharedCache'}


def setup(symbolic):
    if symbolic:
        from vxlib.symx import shims, loader
        loader.install()
        shims.install()


def bounds(tier):
    return {'page fault': 'windows with 0..2 nested real-fault records of the four kinds in every order, with / without an '
                          'unrelated same-thread record between all records; all words free (fault-type byte of nested records '
                          'sharded)', 'launch': '0..3 nested image-map / shared-cache-map records in every kind order, load addresses free 64-bit, '
            'with / without unrelated records', 'sampler': 'flag word free 16-bit; thread-info record present/absent; stack header '
            'present/absent (N free 0..9); 0..2 data records; frames free'}


def structures(tier):
    sts = []
    seqs = [[]] + [[a] for a in RF] + [[a, b] for a in RF for b in RF]
    for s in seqs:
        for noise in (False, True):
            if tier == 'quick' and noise and len(s) != 1:
                continue
            heavy = len([x for x in s if x in DECODED_RF]) == 2
            if heavy and tier == 'quick' and s != ['RealFaultAddressInternal', 'RealFaultAddressExternal']:
                continue
            for ft in (range(13) if heavy else [None]):
                sts.append({'kind': 'vmfault', 'nested': s, 'noise': noise, 'ft': ft})
    for first in (['RealFaultAddressInternal'], ['RealFaultAddressExternal'], []):
        for second in (['RealFaultAddressInternal'], []):
            sts.append({'kind': 'vmfault2', 'first': first, 'second': second})
    # the same windows with the parser tables in an arbitrary pre-state: what a composite trace shows comes from its window
    for s in [[]] + [[a] for a in RF]:
        sts.append({'kind': 'vmfault', 'nested': s, 'noise': False, 'ft': None, 'pre': True})
    sts.append({'kind': 'vmfault2', 'first': [], 'second': ['RealFaultAddressInternal'], 'pre': True})
    sts.append({'kind': 'vmfault2', 'first': ['RealFaultAddressInternal'], 'second': [], 'pre': True})
    for ks in ([], ['DYLD_uuid_map_a'], ['DYLD_uuid_shared_cache_a', 'DYLD_uuid_map_a']):
        sts.append({'kind': 'launch', 'nested': ks, 'noise': False, 'pre': True})
    for hdr in (False, True):
        sts.append({'kind': 'sampler', 'thd': True, 'hdr': hdr, 'nd': 1, 'pre': True})
        sts.append({'kind': 'sampler', 'thd': False, 'hdr': hdr, 'nd': 1, 'pre': True})
    # an unfinished earlier operation of the same kind (and a nested-kind record) before the window
    for s in [[]] + [[a] for a in RF]:
        sts.append({'kind': 'vmfault', 'nested': s, 'noise': False, 'ft': None, 'stale': 'RealFaultAddressInternal'})
    for ks in ([], ['DYLD_uuid_map_a']):
        sts.append({'kind': 'launch', 'nested': ks, 'noise': False, 'stale': 'DYLD_uuid_map_a'})
    for hdr in (False, True):
        sts.append({'kind': 'sampler', 'thd': False, 'hdr': hdr, 'nd': 1, 'stale': 'PERF_THD_Data'})
        sts.append({'kind': 'sampler', 'thd': True, 'hdr': hdr, 'nd': 0, 'stale': 'PERF_STK_UHdr'})
    kinds = ['DYLD_uuid_map_a', 'DYLD_uuid_shared_cache_a']
    for n in range(0, 4 if tier == 'thorough' else 3):
        for ks in itertools.product(kinds, repeat=n):
            for noise in ((False, True) if n else (False,)):
                sts.append({'kind': 'launch', 'nested': list(ks), 'noise': noise})
    for thd in (False, True):
        for hdr in (False, True):
            for nd in (0, 1, 2):
                sts.append({'kind': 'sampler', 'thd': thd, 'hdr': hdr, 'nd': nd})
    return sts


def weight(st):
    return len(st.get('nested', [])) * 3 + st.get('nd', 0)


def _noise(ts):
    _, by_name = sweep.codes()
    return sweep.make_event(ts, [9, 9, 9, 9], TID, by_name['proc_exit'])


def _parser(ctx):
    p = sweep.new_parser()
    if ctx.symbolic:
        p.global_strings, p.tids_names = SymMap(), SymMap()
    return p


def _stale(ctx, first, kind):
    """an earlier START of the same operation on the same thread whose END was lost, followed by a record of the nested
    kind: both precede the window and belong to no window of the dump"""
    _, by_name = sweep.codes()
    w = [ctx.int('stale_a%d' % i) for i in range(4)]
    out = [sweep.make_event(1, w, TID, first.eventid | 1)]
    if kind in ('DYLD_uuid_map_a', 'DYLD_uuid_shared_cache_a'):
        out.append(sweep.make_event_data(2, bytes(range(32, 48)) + K.to_le(ctx.int('stale_addr'), 8) + bytes(8), TID, by_name[kind]))
    else:
        n = [ctx.int('stale_n%d' % i) for i in range(4)]
        if kind.startswith('RealFaultAddress'):
            ctx.assume((n[1] & 0xff) == 1)
        out.append(sweep.make_event(2, n, TID, by_name[kind]))
    return out


def _feed(ctx, evs, first, pre=False, stale=None):
    """pre: the four parser tables start in an arbitrary state (HavocMap) instead of empty"""
    if stale:
        evs = _stale(ctx, first, stale) + list(evs)
    if pre:
        tabs = sweep.havoc_tables(ctx)
        p = sweep.parser_on(tabs)
        if not ctx.symbolic:
            try:
                for t in p.feed_generator(iter(evs)):
                    str(t)
            except Exception:       # noqa
                pass
            p = sweep.parser_on({n: dict(t.initial) for n, t in tabs.items()})
    else:
        p = _parser(ctx)
    out = []
    try:
        for t in p.feed_generator(iter(evs)):
            out.append(t)
        mine = [t for t in out if t.ktraces[0] is first]
        return (mine[-1] if mine else None), out, None
    except OutOfDomain:
        return None, out, 'ood'
    except Exception as e:      # noqa
        __import__('vxlib.symx.core', fromlist=['x']).proxy_rejected(e)
        return None, out, e


def run(ctx, st):
    return {'vmfault': run_vmfault, 'launch': run_launch, 'sampler': run_sampler, 'vmfault2': run_vmfault2}[st['kind']](ctx, st)


def run_vmfault2(ctx, st):
    """a fault window (any result, possibly lost records), then a real-fault record outside any window, then a second,
    successful fault on the same thread: the second trace reflects its own window only"""
    _, by_name = sweep.codes()
    vf = by_name['MACH_vmfault']
    evs = []
    ts = [10]

    def add(name, q, w):
        ts[0] += 1
        e = sweep.make_event(ts[0], w, TID, by_name[name] | q)
        evs.append(e)
        return e
    a1 = [ctx.int('a1_%d' % i) for i in range(4)]
    r1 = [ctx.int('r1_%d' % i) for i in range(4)]
    ctx.assume(r1[3] == 4)            # fault types are not this structure's subject
    add('MACH_vmfault', 1, a1)
    for i, k in enumerate(st['first']):
        w = [ctx.int('n1_%d_%d' % (i, j)) for j in range(4)]
        ctx.assume((w[1] & 0xff) == 1)
        add(k, 0, w)
    add('MACH_vmfault', 2, r1)
    stray = [ctx.int('x_%d' % j) for j in range(4)]
    ctx.assume((stray[1] & 0xff) == 2)
    add('RealFaultAddressInternal', 0, stray)          # a record whose window was lost
    a2 = [ctx.int('a2_%d' % i) for i in range(4)]
    r2 = [ctx.int('r2_%d' % i) for i in range(4)]
    ctx.assume(r2[2] == 0)
    ctx.assume(r2[3] == 2)
    start2 = add('MACH_vmfault', 1, a2)
    n2 = []
    for i, k in enumerate(st['second']):
        w = [ctx.int('n2_%d_%d' % (i, j)) for j in range(4)]
        ctx.assume((w[1] & 0xff) == 3)
        add(k, 0, w)
        n2.append(w)
    add('MACH_vmfault', 2, r2)
    t, out, err = _feed(ctx, evs, start2, st.get('pre', False), st.get('stale'))
    L = 'C20/vmfault-history'
    if err == 'ood':
        ctx.reach('ood'); ctx.reach(); return
    if err is not None or t is None:
        ctx.check(L + '/trace', False, repr(err)); ctx.reach(); return
    if n2:
        ctx.check(L + '/pid-from-its-own-window', And(t.pid is not None, t.pid == n2[0][3]), 'pid %r' % (t.pid,))
        spec, _, _ = c11.FAMILIES['vmprot']((n2[0][1] >> 8) & 0xff)
        shown = _names_guards(t.caller_prot if t.caller_prot is not None else [])
        for n in sorted(set(shown) | {k for k in spec if k in D.VM_PROT}):
            g = shown.get(n, False)
            ctx.check(L + '/protection-from-its-own-window', And(Implies(g, spec.get(n, False)), Implies(spec.get(n, False), g)), n)
    else:
        ctx.check(L + '/no-nested-record-no-pid', t.pid is None and t.caller_prot is None, 'pid %r' % (t.pid,))
    ctx.reach()



def _names_guards(lst):
    """flag list (plain or guarded) -> {name: guard}"""
    out = {}
    if isinstance(lst, GuardedList):
        from vxlib.symx.values import mkb
        for e, g in zip(lst.elems, lst.guards):
            gg = g if isinstance(g, bool) else mkb(g)
            out[e.name] = Or(out[e.name], gg) if e.name in out else gg
    else:
        for e in lst:
            out[e.name] = True
    return out


def run_vmfault(ctx, st):
    _, by_name = sweep.codes()
    a = [ctx.int('a%d' % i) for i in range(4)]
    r = [ctx.int('r%d' % i) for i in range(4)]
    start = sweep.make_event(10, a, TID, by_name['MACH_vmfault'] | 1)
    evs = [start]
    ts = 11
    nested = []
    for i, k in enumerate(st['nested']):
        if st['noise']:
            evs.append(_noise(ts)); ts += 1
        w = [ctx.int('n%d_%d' % (i, j)) for j in range(4)]
        if i == 0 and st.get('ft') is not None:
            ctx.assume((w[1] & 0xff) == st['ft'] if st['ft'] < 12 else (w[1] & 0xff) >= 12)
        evs.append(sweep.make_event(ts, w, TID, by_name[k])); ts += 1
        nested.append((k, w))
    if st['noise']:
        evs.append(_noise(ts)); ts += 1
    evs.append(sweep.make_event(ts, r, TID, by_name['MACH_vmfault'] | 2))
    t, out, err = _feed(ctx, evs, start, st.get('pre', False), st.get('stale'))
    if err == 'ood':
        ctx.reach('ood'); ctx.reach(); return
    L = 'C20/vmfault'
    if err is not None or t is None:
        ctx.check(L + '/trace', False, repr(err)); ctx.reach(); return
    ctx.check(L + '/result-from-END', t.result == r[2])
    ok = bool(r[2] == 0)
    if ok:
        ctx.check(L + '/type-from-END', t.fault_type is not None and t.fault_type.value == r[3])
        if not nested:
            ctx.check(L + '/no-nested-record-no-pid', t.pid is None and t.caller_prot is None)
        elif nested[0][0] in DECODED_RF:
            w = nested[0][1]
            ctx.check(L + '/pid-from-first-nested', And(t.pid is not None, t.pid == w[3]))
            spec, _, _ = c11.FAMILIES['vmprot']((w[1] >> 8) & 0xff)
            shown = _names_guards(t.caller_prot if t.caller_prot is not None else [])
            for n in sorted(set(shown) | {k for k in spec if k in D.VM_PROT}):
                g = shown.get(n, False)
                ctx.check(L + '/protection-from-first-nested', And(Implies(g, spec.get(n, False)), Implies(spec.get(n, False), g)), n)
        else:
            # the first nested real-fault-address record is of a kind the tool does not decode: nothing may be taken from a later one
            ctx.check(L + '/first-nested-undecoded-no-pid', t.pid is None and t.caller_prot is None)
        # text agrees with the fields
        s = str(t)
        ctx.observe('text', s)
    else:
        ctx.check(L + '/failed-fault-shows-no-type', 'type:' not in ''.join(x for x in ctx.template(str(t)) if isinstance(x, str)))
    ctx.reach()


UUIDS = [bytes([0x21 + i] * 16) for i in range(4)]


def run_launch(ctx, st):
    _, by_name = sweep.codes()
    lid = by_name['DBG_DYLD_TIMING_LAUNCH_EXECUTABLE']
    a = [ctx.int('a%d' % i) for i in range(4)]
    start = sweep.make_event(10, a, TID, lid | 1)
    evs = [start]
    ts = 11
    nested = []
    for i, k in enumerate(st['nested']):
        if st['noise']:
            evs.append(_noise(ts)); ts += 1
        addr = ctx.int('addr%d' % i)
        ev = sweep.make_event_data(ts, UUIDS[i] + K.to_le(addr, 8) + K.to_le(ctx.int('fsid%d' % i), 8), TID, by_name[k]); ts += 1
        evs.append(ev)
        nested.append((ev, addr))
    evs.append(sweep.make_event(ts + 1, [0, 0, 0, 0], TID, lid | 2))
    t, out, err = _feed(ctx, evs, start, st.get('pre', False), st.get('stale'))
    L = 'C20/launch'
    if err is not None or t is None:
        ctx.check(L + '/trace', False, repr(err)); ctx.reach(); return
    imgs = list(t.uuid_map_a)
    ctx.check(L + '/every-nested-record-listed', len(imgs) == len(nested) and
              sorted(id(x.ktraces[0]) for x in imgs) == sorted(id(e) for e, _ in nested),
              '%d images listed for %d nested records' % (len(imgs), len(nested)))
    for x, y in zip(imgs, imgs[1:]):
        ctx.check(L + '/sorted-by-load-address', x.load_addr <= y.load_addr)
    for x in imgs:
        m = [addr for e, addr in nested if e is x.ktraces[0]]
        if m:
            ctx.check(L + '/load-address-of-its-record', x.load_addr == m[0])
    ctx.check(L + '/main-executable', t.main_executable_mh == a[1])
    ctx.reach()


def run_sampler(ctx, st):
    _, by_name = sweep.codes()
    pe = by_name['PERF_Event']
    flags = ctx.int('flags', 16)
    start = sweep.make_event(ctx.int('ts'), [flags, ctx.int('action'), 0, 0], TID, pe | 1)
    evs = [start]
    ts = 11
    thd = None
    if st['thd']:
        thd = [ctx.int('t%d' % i) for i in range(4)]
        evs.append(sweep.make_event(ts, thd, TID, by_name['PERF_THD_Data'])); ts += 1
    N = None
    if st['hdr']:
        N = ctx.int('n', 4)
        ctx.assume(N <= 9)
        evs.append(sweep.make_event(ts, [ctx.int('hflags', 9), N, 0, 0], TID, by_name['PERF_STK_UHdr'])); ts += 1
    words = []
    for i in range(st['nd']):
        w = [ctx.int('f%d_%d' % (i, j)) for j in range(4)]
        words += w
        evs.append(sweep.make_event(ts, w, TID, by_name['PERF_STK_UData'])); ts += 1
    evs.append(sweep.make_event(ts, [flags, 0, 0, 0], TID, pe | 2))
    t, out, err = _feed(ctx, evs, start, st.get('pre', False), st.get('stale'))
    L = 'C20/sampler'
    if err is not None or t is None:
        ctx.check(L + '/trace', False, repr(err)); ctx.reach(); return
    want_thd = And((flags & D.SAMPLER['SAMPLER_TH_INFO']) != 0, st['thd'])
    want_stack = And((flags & D.SAMPLER['SAMPLER_USTACK']) != 0, st['hdr'])
    has_thd = t.th_info is not None
    has_stack = t.cs_frames is not None
    ctx.check(L + '/thread-info-iff-flag-and-record', And(Implies(has_thd, want_thd), Implies(want_thd, has_thd)),
              'thread info %s' % ('present' if has_thd else 'absent'))
    ctx.check(L + '/stack-iff-flag-and-header', And(Implies(has_stack, want_stack), Implies(want_stack, has_stack)),
              'user stack %s' % ('present' if has_stack else 'absent'))
    if has_thd and thd is not None:
        ctx.check(L + '/thread-info-from-its-record', And(t.th_info.pid == thd[0], t.th_info.tid == thd[1]))
    if has_stack and N is not None:
        fr = list(t.cs_frames)
        ctx.check(L + '/frame-count', And(len(fr) <= len(words), Or(len(fr) == N, And(len(fr) == len(words), N >= len(words)))))
        for i, f in enumerate(fr[:len(words)]):
            ctx.check(L + '/frames-are-data-words', f == words[i])
    ctx.check(L + '/action-id', t.actionid == start.values[1])
    ctx.reach()
