"""C06 - truncated dumps: parsing terminates and reports a prefix of the full result."""
import contextlib
import io
from oracle import kdebug as K
from oracle import v3 as V
from vxlib import sweep
from vxlib.symx import And, Or, Not, SymMap, SymBytes, Budget
from vxlib.symx.stream import make_stream

PROPERTY = 'C06'
STUBS = ['struct.unpack model', 'SymStream with a read budget of 4*len+64 reads (exceeding it = non-termination witness)',
         'SymMap for the thread tables', 'atoms for rendered ints (formatted lines are compared as templates)']
ASSUMPTIONS = ['v2: the first record does not begin with 0x00 (C02 known finding)',
               'trace-level structures use records with concrete debug ids / thread ids and symbolic argument words',
               'colour is off for formatted traces (pygments is a C-boundary-heavy third party)']
OUTSIDE = ['termination beyond the read budget (a bound, not a proof)', 'files other than the two enumerated shapes']
EXPLORE_OPTS = {'max_paths': 5000, 'max_seconds': 600}
TASKS_PER_CHILD = 200


def setup(symbolic):
    if symbolic:
        from vxlib.symx import shims, loader
        loader.install()
        shims.install()


def bounds(tier):
    return {'v2 file': 'header, 1 thread-map entry, 2 padding bytes, 2 records (symbolic bytes): every cut offset 0..len',
            'v3 file': 'header, 3 filler bytes, 1 thread-map entry, two event chunks (1+1 records, symbolic bytes), a code '
                       'block, string and log blocks: ' + ('every cut offset 0..len' if tier == 'thorough' else
                                                          'every cut offset up to the end of the events, every 4th after'),
            'trace level': 'v2 file with 6 records forming syscall windows on two threads (concrete ids, symbolic words): '
                           'cuts at every record boundary, +-1 and mid-record',
            'print_with_count': 'counts 0, 1, 2 and 5 on full and cut files'}


def _v2(records):
    return K.v2_file([(0x1d3, 7, b'procA')], 2, records)


def _tagged_filler():
    """stackshot bytes that happen to contain a thread-map tag with a small length and an events tag (what a reader that
    gave up looking for the end-of-stackshot marker would mistake for the real sections)"""
    fake_map = K.threadmap_entry(0x77, 9, b'ghost')
    fake_ev = K.pack_rec(5, [1, 2, 3, 4], 0x77, 0x40c0050)
    return b'xy' + V.TAG_THREADMAP + K.to_le(len(fake_map), 8) + fake_map + V.TAG_EVENTS + K.to_le(8 + 64, 8) + bytes(8) + fake_ev + b'zz'


def _v3(records, sym=True, filler=b'abc'):
    return V.v3_file([(0x1d3, 7, b'procA')], [[records[0]], [records[1]]],
                     [('codes', '0x40c0004\tBSC_exit\n'), ('strings', V.sample_strings()), ('logs', V.sample_logs())],
                     filler=filler, between=bytes(8))


def structures(tier):
    sts = []
    n2 = len(_v2([bytes(64), bytes(64)]))
    n3 = len(_v3([bytes(64), bytes(64)]))
    for k in range(n2 + 1):
        sts.append({'kind': 'v2', 'cut': k})
    ev_end = n3 - len(V.encode_block('codes', '0x40c0004\tBSC_exit\n')) - len(V.encode_block('strings', V.sample_strings())) \
        - len(V.encode_block('logs', V.sample_logs()))
    for k in range(n3 + 1):
        if tier == 'thorough' or k <= ev_end + 8 or k % 4 == 0 or k == n3:
            sts.append({'kind': 'v3', 'cut': k})
    d3s = _v3([bytes(64), bytes(64)], filler=_tagged_filler())
    f0, f1 = d3s.find(b'xy' + V.TAG_THREADMAP), d3s.find(V.STACKSHOT_END) + len(V.STACKSHOT_END)
    for k in list(range(f0 - 4, f1 + 12, 1 if tier == 'thorough' else 2)) + [len(d3s)]:
        sts.append({'kind': 'v3', 'cut': k, 'tagged': True})
    nt = 288 + 32 + 2 + 64 * 6
    base = 288 + 32 + 2
    cuts = set()
    for i in range(7):
        for d in (-1, 0, 1, 31):
            c = base + 64 * i + d
            if 0 <= c <= nt:
                cuts.add(c)
    for c in sorted(cuts):
        sts.append({'kind': 'traces', 'cut': c})
    # default options (colour on) on a stream in which a process is renamed between two traces
    nr = 288 + 32 + 2 + 64 * 10
    for i in range(11):
        for d in (0, 13):
            c = base + 64 * i + d
            if c <= nr:
                sts.append({'kind': 'rename', 'cut': c})
    for i in (1, 3, 5, 8, 9):
        for d in (0, 17):
            sts.append({'kind': 'rename', 'cut': base + 64 * i + d, 'reuse': 'error' if d else 'boundary'})
    sts.append({'kind': 'rename', 'cut': nr, 'reuse': 'early'})
    for c in (0, 1, 2, 5):
        sts.append({'kind': 'count', 'count': c, 'cut': nt})
        sts.append({'kind': 'count', 'count': c, 'cut': base + 64 * 3 + 10})
    return sts


def _events(ctx, data, kind='kevents'):
    """-> (list, error | None, budget_exceeded)"""
    from pykdebugparser.pykdebugparser import PyKdebugParser
    p = PyKdebugParser()
    p.color = False
    if ctx.symbolic:
        p.threads_pids, p.pids_names = SymMap(), SymMap()
    out, err, over = [], None, False
    try:
        gen = getattr(p, kind)(make_stream(data))
        for x in gen:
            out.append(x)
    except Budget as b:
        over = True
        err = b
    except Exception as e:      # noqa: stopping with an error is allowed
        __import__('vxlib.symx.core', fromlist=['x']).proxy_rejected(e)
        err = e
    return out, err, over


def _cut(data, k):
    return data[:k]


def _ev_eq(a, b):
    from pykdebugparser.kevent import Kevent
    if isinstance(a, Kevent) != isinstance(b, Kevent):
        return False
    if not isinstance(a, Kevent):
        return a == b
    return And(a.timestamp == b.timestamp, a.data == b.data, a.tid == b.tid, a.debugid == b.debugid,
               a.eventid == b.eventid, a.func_qualifier == b.func_qualifier)


def run(ctx, st):
    kind = st['kind']
    if kind in ('v2', 'v3'):
        recs = [ctx.bytes('rec%d' % i, 64) for i in range(2)]
        if kind == 'v2':
            ctx.assume(recs[0][0] != 0)
        data = _v2(recs) if kind == 'v2' else _v3(recs, filler=_tagged_filler() if st.get('tagged') else b'abc')
        full, ferr, fover = _events(ctx, data)
        L = 'C06/' + kind
        ctx.check(L + '/full-file-parses', ferr is None and not fover, repr(ferr))
        part, perr, pover = _events(ctx, _cut(data, st['cut']))
        ctx.observe('n', [len(full), len(part), type(perr).__name__ if perr else None])
        region = _region(kind, st['cut'], len(data)) if pover else ''
        ctx.check(L + '/terminates' + region, not pover, 'cut at %d: %s' % (st['cut'], perr))
        ctx.check(L + '/prefix-length', len(part) <= len(full), 'cut file reports %d events, full file %d' % (len(part), len(full)))
        for i in range(min(len(part), len(full))):
            ctx.check(L + '/prefix', _ev_eq(part[i], full[i]), 'item %d differs' % i)
        ctx.reach()
        return
    if kind == 'rename':
        return run_rename(ctx, st)
    # trace level: concrete skeleton, symbolic words
    recs = _skeleton(ctx)
    data = K.v2_file([(0x1d3, 7, b'procA')], 2, recs)
    cut = _cut(data, st['cut'])
    if kind == 'traces':
        for meth in ('traces', 'formatted_traces', 'formatted_kevents'):
            full, ferr, fover = _events(ctx, data, meth)
            part, perr, pover = _events(ctx, cut, meth)
            L = 'C06/' + meth
            ctx.check(L + '/full-file-parses', ferr is None, repr(ferr))
            ctx.check(L + '/terminates', not pover)
            ctx.check(L + '/prefix-length', len(part) <= len(full), '%d vs %d' % (len(part), len(full)))
            for i in range(min(len(part), len(full))):
                if meth == 'traces':
                    same = sweep.pieces_equal(ctx.template(str(part[i])), ctx.template(str(full[i]))) \
                        if ctx.symbolic else str(part[i]) == str(full[i])
                    same = And(same, type(part[i]) is type(full[i]), len(part[i].ktraces) == len(full[i].ktraces))
                else:
                    same = sweep.pieces_equal(ctx.template(part[i]), ctx.template(full[i])) if ctx.symbolic else part[i] == full[i]
                ctx.check(L + '/prefix', same, 'item %d differs' % i)
        ctx.reach()
        return
    # print_with_count: limiting the output never changes the lines printed
    from pykdebugparser.__main__ import print_with_count
    from pykdebugparser.pykdebugparser import PyKdebugParser

    def lines(count):
        p = PyKdebugParser()
        p.color = False
        if ctx.symbolic:
            p.threads_pids, p.pids_names = SymMap(), SymMap()
        buf = io.StringIO()
        err = None
        with contextlib.redirect_stdout(buf):
            try:
                print_with_count(p.formatted_traces(make_stream(cut)), count)
            except Budget:
                raise
            except Exception as e:      # noqa
                __import__('vxlib.symx.core', fromlist=['x']).proxy_rejected(e)
                err = e
        return buf.getvalue().split('\n')[:-1], err
    allp, _ = lines(-1)
    got, err = lines(st['count'])
    c = st['count']
    ctx.check('C06/count/length', len(got) == min(c, len(allp)) or (err is not None and len(got) <= min(c, len(allp))),
              '%d lines printed for count %d of %d' % (len(got), c, len(allp)))
    for i in range(min(len(got), len(allp))):
        same = sweep.pieces_equal(ctx.template(got[i]), ctx.template(allp[i])) if ctx.symbolic else got[i] == allp[i]
        ctx.check('C06/count/same-lines', same)
    ctx.reach()


ANSI = __import__('re').compile(r'\x1b\[[0-9;]*m')


def run_rename(ctx, st):
    """formatted traces with the default options (colour on): lines already reported never change when more of the dump
    is read, even when later records rename the process"""
    by_id, by_name = sweep.codes()
    gp, ex_d, ex_s = by_name['BSC_getpid'], by_name['TRACE_DATA_EXEC'], by_name['TRACE_STRING_EXEC']
    T = 0x1d3
    recs = [K.pack_rec(1001, [0, 0, 0, 0], T, gp | 1), K.pack_rec(1002, [0, ctx.int('ret0'), 0, 0], T, gp | 2),
            K.pack_rec(1003, [7, 0, 0, 0], T, ex_d), K.pack_rec_data(1004, b'newimage' + bytes(24), T, ex_s),
            K.pack_rec(1005, [0, 0, 0, 0], T, gp | 1), K.pack_rec(1006, [0, ctx.int('ret1'), 0, 0], T, gp | 2),
            K.pack_rec(1007, [0, 0, 0, 0], T, gp | 1)]
    # a global string split over three records: a dump cut inside it reports nothing of it
    gs = by_name['TRACE_STRING_GLOBAL']
    for j, (q, chunk) in enumerate(K.chunk_string(b'/System/Library/Frameworks/Foundation.framework/F', 5, 77)):
        recs.append(K.pack_rec_data(1008 + j, chunk, T, gs | q))
    data = K.v2_file([(T, 7, b'xpcproxy')], 2, recs)

    def lines(d, color):
        from pykdebugparser.pykdebugparser import PyKdebugParser
        p = PyKdebugParser()
        p.color = color
        if ctx.symbolic:
            p.threads_pids, p.pids_names = SymMap(), SymMap()
        out, err = [], None
        try:
            for ln in p.formatted_traces(make_stream(d)):
                out.append(ANSI.sub('', ln))
        except Budget:
            raise
        except Exception as e:      # noqa
            __import__('vxlib.symx.core', fromlist=['x']).proxy_rejected(e)
            err = e
        return out, err
    def objs(d):
        """trace objects: (text when reported, text after the whole input was read)"""
        from pykdebugparser.pykdebugparser import PyKdebugParser
        p = PyKdebugParser()
        if ctx.symbolic:
            p.threads_pids, p.pids_names = SymMap(), SymMap()
        got, err = [], None
        try:
            for t in p.traces(make_stream(d)):
                got.append((str(t), t))
        except Budget:
            raise
        except Exception as e:      # noqa
            __import__('vxlib.symx.core', fromlist=['x']).proxy_rejected(e)
            err = e
        return [(a, str(t)) for a, t in got], err
    fo, ferr = objs(data)
    po, perr = objs(_cut(data, st['cut']))
    L = 'C06/rename/traces'
    ctx.check(L + '/full-file-parses', ferr is None, repr(ferr))
    ctx.check(L + '/prefix-length', len(po) <= len(fo), '%d vs %d traces' % (len(po), len(fo)))
    eq = (lambda x, y: sweep.pieces_equal(ctx.template(x), ctx.template(y))) if ctx.symbolic else (lambda x, y: x == y)
    for i, (at_report, at_end) in enumerate(fo):
        ctx.check(L + '/reported-trace-never-changes', eq(at_report, at_end), 'trace %d reads differently after later records were parsed' % i)
    for i in range(min(len(po), len(fo))):
        ctx.check(L + '/prefix', eq(po[i][1], fo[i][1]), 'trace %d of the cut dump differs from the complete dump\'s' % i)
    if st.get('reuse'):
        # the request on the cut dump ended (with an error, or early: only the first item was taken); the next request on
        # the SAME parser object reports what a fresh parser reports for the complete dump
        from pykdebugparser.pykdebugparser import PyKdebugParser
        p = PyKdebugParser()
        if ctx.symbolic:
            p.threads_pids, p.pids_names = SymMap(), SymMap()
        try:
            g = p.traces(make_stream(_cut(data, st['cut'])))
            if st['reuse'] == 'early':
                next(iter(g), None)
            else:
                for _ in g:
                    pass
        except Budget:
            raise
        except Exception as e:      # noqa
            __import__('vxlib.symx.core', fromlist=['x']).proxy_rejected(e)
        # the second dump starts in the middle of an operation (an END whose START is not in it) and names nothing
        data2 = K.v2_file([(T, 7, b'xpcproxy')], 2, recs[1:])
        fo, _ = objs(data2)
        try:
            again = [str(t) for t in p.traces(make_stream(data2))]
        except Budget:
            raise
        except Exception as e:      # noqa
            __import__('vxlib.symx.core', fromlist=['x']).proxy_rejected(e)
            ctx.check('C06/reuse/no-error', False, '%s: %s' % (type(e).__name__, e)); ctx.reach(); return
        fresh = [b for a, b in fo]
        ctx.check('C06/reuse/same-count-as-a-fresh-parser', len(again) == len(fresh), '%d vs %d traces' % (len(again), len(fresh)))
        for i in range(min(len(again), len(fresh))):
            ctx.check('C06/reuse/same-traces-as-a-fresh-parser', eq(again[i], fresh[i]), 'trace %d' % i)
        ctx.reach()
        return
    for color in (True, False):
        full, ferr = lines(data, color)
        part, perr = lines(_cut(data, st['cut']), color)
        L = 'C06/rename/colour-%s' % ('on' if color else 'off')
        ctx.check(L + '/full-file-parses', ferr is None, repr(ferr))
        ctx.check(L + '/prefix-length', len(part) <= len(full), '%d vs %d lines' % (len(part), len(full)))
        for i in range(min(len(part), len(full))):
            same = sweep.pieces_equal(ctx.template(part[i]), ctx.template(full[i])) if ctx.symbolic else part[i] == full[i]
            ctx.check(L + '/prefix', same, 'line %d of the cut dump differs from the complete dump\'s' % i)
    ctx.reach()


def _region(kind, cut, n):
    if kind != 'v3':
        return ''
    return '/tag-scan-eof'


def _skeleton(ctx):
    """read on thread A, getpid on thread B, interleaved: S_A, S_B, E_B, E_A, then a single event and a START"""
    by_id, by_name = sweep.codes()
    rd, gp = by_name['BSC_read'], by_name['BSC_getpid']
    spec = [(rd | 1, 0x1d3), (gp | 1, 0x2e4), (gp | 2, 0x2e4), (rd | 2, 0x1d3), (by_name['BSC_sync'] | 0, 0x1d3), (rd | 1, 0x2e4)]
    recs = []
    for i, (dbg, tid) in enumerate(spec):
        words = [ctx.int('w%d_%d' % (i, j)) for j in range(4)]
        recs.append(K.pack_rec(1000 + i, words, tid, dbg))
    return recs
