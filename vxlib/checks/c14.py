"""C14 - lines name the process the dump declares for the thread; columns compose."""
import re
from oracle import kdebug as K
from oracle.threadmap import Declared
from vxlib import sweep
from vxlib.symx import And, Or, Not, SymMap, SymBool, Unsupported, Atom
from vxlib.symx.stream import make_stream

PROPERTY = 'C14'
STUBS = ['struct.unpack model', 'SymStream', 'SymMap thread tables', 'rendered ints as atoms whose placeholder has exactly the '
         'rendering\'s width (decided by the solver from the digit-count boundaries), so padding applied by the real str code is '
         'faithful; an atom of undetermined width inside a padded column makes the run inconclusive',
         'the six show_* switches are symbolic booleans (forked by the engine: all 64 configurations)']
ASSUMPTIONS = ['timestamps, thread ids and pids range over digit-length classes (13-digit timestamps; thread ids 10000..65535 or '
               '2^40..10^13 - the latter overflows the 11-character column; pids 100..999)',
               'event argument bytes are concrete in the kevents listing (their repr is not padded in practice)',
               'emitting thread ids are concrete (window tables are real dicts); declared ids (thread map, new-thread, '
               'sampler records) are symbolic']
OUTSIDE = ['the wall-clock timestamp branch (float division, datetime)', 'what pygments emits between the characters (only '
           'that removing its escape sequences gives back the text)']
EXPLORE_OPTS = {'max_paths': 60000, 'max_seconds': 900, 'exact_width': True}
TID = 0x2b67            # 11111: 5 decimal digits, 4 hex digits
ANSI = re.compile(r'\x1b\[[0-9;]*m')


def setup(symbolic):
    if symbolic:
        from vxlib.symx import shims, loader
        loader.install()
        shims.install()


def bounds(tier):
    return {'column switches': 'all 2^6 configurations (symbolic booleans) for kevent lines, 2^3 for trace and callstack lines',
            'values': 'timestamp in [10^12,10^13); thread id classes: 5-digit and overflowing 13-digit; pid in [100,999]',
            'event kinds': 'known / unknown event id x 4 qualifiers; mapped / unmapped thread',
            'process column': 'thread map of 0..2 entries with symbolic ids followed by <= %d map-updating records (new-thread data/name, '
                              'exec data/name, terminate-pid, sampler thread data) with symbolic ids, then a trigger syscall; '
                              'kevents listing: thread map only' % (2 if tier == 'quick' else 3)}


UPD = ['ND', 'NS', 'ED', 'ES', 'TP', 'PD']
UPD_MORE = ['TT']           # records that name a thread but declare nothing (used in a few extra sequences)
UPD_NAMES = {'TT': 'TRACE_DATA_THREAD_TERMINATE', 'ND': 'TRACE_DATA_NEWTHREAD', 'NS': 'TRACE_STRING_NEWTHREAD', 'ED': 'TRACE_DATA_EXEC', 'ES': 'TRACE_STRING_EXEC',
             'TP': 'TRACE_DATA_THREAD_TERMINATE_PID', 'PD': 'PERF_THD_Data'}


def structures(tier):
    import itertools
    sts = []
    for known in (True, False):
        for q in (0, 1, 2, 3):
            for mapped in (True, False):
                for tidc in ('short', 'long'):
                    if tier == 'quick' and (q in (0, 3)) and not (known and mapped and tidc == 'short'):
                        continue
                    sts.append({'kind': 'kevent', 'known': known, 'q': q, 'mapped': mapped, 'tidc': tidc})
    for mapped in (True, False):
        for tidc in ('short', 'long'):
            sts.append({'kind': 'trace', 'mapped': mapped, 'tidc': tidc})
            sts.append({'kind': 'callstack', 'mapped': mapped, 'tidc': tidc})
    for symbolic_args in (False, True):
        sts.append({'kind': 'colour', 'sym': symbolic_args})
    sts.append({'kind': 'colour-log'})
    n = 2 if tier == 'quick' else 3
    seqs = [[]]
    for k in range(1, n + 1):
        seqs += [list(x) for x in itertools.product(UPD, repeat=k)]
    if tier == 'quick':
        seqs = [s for s in seqs if len(s) < 2 or s[0] in ('ND', 'ED', 'TP') or s == ['PD', 'PD']]
    for nmap in (0, 1, 2):
        for s in seqs:
            if nmap == 0 and len(s) > 1 and tier == 'quick':
                continue
            sts.append({'kind': 'process', 'nmap': nmap, 'upd': s})
    for nmap in (0, 1, 2):
        sts.append({'kind': 'process-kevents', 'nmap': nmap})
    for nmap in (1, 2):
        for s in (['TT'], ['TT', 'TP'], ['TT', 'ND'], ['TP', 'TT'], ['TT', 'PD']):
            sts.append({'kind': 'process', 'nmap': nmap, 'upd': s})
    for nmap in (0, 1, 2):
        sts.append({'kind': 'process-callstack', 'nmap': nmap})
    for second in ('no-map', 'other-thread'):
        sts.append({'kind': 'process-two-dumps', 'second': second})
    for nmap, empty in ((1, 0), (2, 0), (2, 1)):
        sts.append({'kind': 'process-kevents', 'nmap': nmap, 'empty': empty})
        sts.append({'kind': 'process', 'nmap': nmap, 'upd': [], 'empty': empty})
        sts.append({'kind': 'process', 'nmap': nmap, 'upd': ['TP'], 'empty': empty})
    return sts


def weight(st):
    return len(st.get('upd', [])) * 3 + 1


def _parser(ctx):
    from pykdebugparser.pykdebugparser import PyKdebugParser
    p = PyKdebugParser()
    p.color = False
    if ctx.symbolic:
        p.threads_pids, p.pids_names = SymMap(), SymMap()
    return p


def _ts(ctx, name='ts'):
    t = ctx.int(name)
    ctx.assume(And(t >= 10 ** 12, t < 10 ** 13))
    return t


def _tid(ctx, cls, name='tid'):
    t = ctx.int(name)
    if cls == 'short':
        ctx.assume(And(t >= 10000, t <= 65535))
    else:
        ctx.assume(And(t >= 2 ** 40, t < 10 ** 13))
    return t


def _pid(ctx, name='pid'):
    p = ctx.int(name, 32)
    ctx.assume(And(p >= 100, p <= 999))
    return p


def _eq_text(ctx, a, b):
    if ctx.symbolic:
        return sweep.pieces_equal(ctx.template(a), ctx.template(b))
    return a == b


def _require_widths(ctx, s):
    """every rendered int in a (possibly padded) line must have a determinate width"""
    if ctx.symbolic:
        for p in ctx.template(s):
            if isinstance(p, Atom) and p.kind in ('d', 'x', 'fmt') and p.width is None:
                raise Unsupported('a rendered value of undetermined width inside a padded line: ' + p.describe())


KE_COLS = ['show_timestamp', 'show_name', 'show_func_qual', 'show_tid', 'show_process', 'show_args']
TR_COLS = ['show_timestamp', 'show_tid', 'show_process']


def _switches(ctx, p, cols, allcols=KE_COLS):
    sw = {}
    for c in allcols:
        if c in cols:
            sw[c] = ctx.bool('sw_' + c)
            setattr(p, c, sw[c])
    return sw


def _single(p, ctx, cols, on, fmt):
    """the line with only column `on` enabled (None = none)"""
    saved = {c: getattr(p, c) for c in KE_COLS}
    try:
        for c in KE_COLS:
            setattr(p, c, c == on)
        return fmt()
    finally:
        for c, v in saved.items():
            setattr(p, c, v)


def run(ctx, st):
    if st['kind'] == 'process-callstack':
        return run_process_callstack(ctx, st)
    if st['kind'] == 'process-two-dumps':
        return run_process_two_dumps(ctx, st)
    return {'kevent': run_kevent, 'trace': run_trace, 'callstack': run_callstack, 'colour': run_colour,
            'colour-log': run_colour_log, 'process': run_process, 'process-kevents': run_process_kevents}[st['kind']](ctx, st)


def _declare(ctx, p, tid, mapped):
    if mapped:
        pid = _pid(ctx)
        p.threads_pids[tid] = pid
        p.pids_names[pid] = 'launchd'


def run_kevent(ctx, st):
    by_id, by_name = sweep.codes()
    p = _parser(ctx)
    tid = _tid(ctx, st['tidc'])
    _declare(ctx, p, tid, st['mapped'])
    eid = by_name['BSC_read'] if st['known'] else 0x0badc0d0
    from pykdebugparser.kevent import from_kd_buf
    ev = from_kd_buf(K.pack_rec_data(_ts(ctx), bytes(range(32)), tid, eid | st['q']))
    sw = _switches(ctx, p, KE_COLS)
    line = p._format_kevent(ev, by_id)
    _require_widths(ctx, line)
    on = [c for c in KE_COLS if bool(sw[c])]
    cols = {c: _single(p, ctx, KE_COLS, c, lambda: p._format_kevent(ev, by_id)) for c in KE_COLS}
    none = _single(p, ctx, KE_COLS, None, lambda: p._format_kevent(ev, by_id))
    ctx.check('C14/kevent/no-columns-empty-line', none == '')
    ctx.check('C14/kevent/columns-compose', _eq_text(ctx, line, ''.join(cols[c] for c in on)),
              'line with %s enabled is not the concatenation of those columns' % on)
    ctx.observe('line', line)
    # process column content
    proc = cols['show_process']
    if st['mapped']:
        ctx.check('C14/kevent/process-column', _eq_text(ctx, proc, f'{"launchd(" + str(p.threads_pids[tid]) + ")":<27}'))
    else:
        ctx.check('C14/kevent/unknown-thread', _eq_text(ctx, proc, f'{"Error: tid " + str(tid):<27}'))
    ctx.reach()


def _read_trace(ctx, tid, sym=True):
    by_id, by_name = sweep.codes()
    tp = sweep.new_parser()
    a = [ctx.int('a%d' % i) for i in range(4)] if sym else [3, 0x1000, 64, 0]
    r = [0, ctx.int('r1') if sym else 64, 0, 0]
    evs = [sweep.make_event(_ts(ctx), a, tid, by_name['BSC_read'] | 1), sweep.make_event(_ts(ctx, 'ts2'), r, tid, by_name['BSC_read'] | 2)]
    out = list(tp.feed_generator(iter(evs)))
    return out[-1]


def run_trace(ctx, st):
    p = _parser(ctx)
    # the emitting thread of a trace is concrete; its width class is chosen by the structure
    tid = 11111 if st['tidc'] == 'short' else 2 ** 40 + 12345
    _declare(ctx, p, tid, st['mapped'])
    t = _read_trace(ctx, tid)
    sw = _switches(ctx, p, TR_COLS)
    line = p._format_trace(t)
    on = [c for c in TR_COLS if bool(sw[c])]
    cols = {c: _single(p, ctx, TR_COLS, c, lambda: p._format_trace(t)) for c in TR_COLS}
    body = _single(p, ctx, TR_COLS, None, lambda: p._format_trace(t))
    ctx.check('C14/trace/body-is-the-trace-text', _eq_text(ctx, body, str(t)))
    # each single-column line is that column followed by the body
    ok = True
    pre = {}
    for c in TR_COLS:
        pc, bc = ctx.template(cols[c]) if ctx.symbolic else None, None
        s_col, s_body = cols[c], body
        if not s_col.endswith(s_body):
            ok = False
            pre[c] = s_col
        else:
            pre[c] = s_col[:len(s_col) - len(s_body)]
    ctx.check('C14/trace/column-then-body', ok)
    ctx.check('C14/trace/columns-compose', _eq_text(ctx, line, ''.join(pre[c] for c in on) + body), 'enabled: %s' % on)
    for c in TR_COLS:
        _require_widths(ctx, pre[c])
    if st['mapped']:
        ctx.check('C14/trace/process-column', _eq_text(ctx, pre['show_process'], f'{"launchd(" + str(p.threads_pids[tid]) + ")":<34}'))
    else:
        ctx.check('C14/trace/unknown-thread', _eq_text(ctx, pre['show_process'], f'{"Error: tid " + str(tid):<34}'))
    ctx.reach()


def run_callstack(ctx, st):
    from pykdebugparser.callstacks_parser import Callstack, Frame
    import uuid
    p = _parser(ctx)
    tid = 11111 if st['tidc'] == 'short' else 2 ** 40 + 12345
    _declare(ctx, p, tid, st['mapped'])
    f0, off = ctx.int('f0'), ctx.int('off')
    cs = Callstack(_ts(ctx), tid, [Frame(f0, None, None), Frame(f0, uuid.UUID(bytes=bytes(range(16))), off)])
    sw = _switches(ctx, p, TR_COLS)
    text = p._format_callstack(cs)
    on = [c for c in TR_COLS if bool(sw[c])]
    lines = text.split('\n')
    ctx.check('C14/callstack/line-count', len(lines) == 3)
    cols = {c: _single(p, ctx, TR_COLS, c, lambda: p._format_callstack(cs)).split('\n')[0] for c in TR_COLS}
    ctx.check('C14/callstack/columns-compose', _eq_text(ctx, lines[0], ''.join(cols[c] for c in on)))
    if len(lines) == 3:
        ctx.check('C14/callstack/frame-lines', And(_eq_text(ctx, lines[1], f'0x{f0:016x}'),
                                                   _eq_text(ctx, lines[2], ' ' + str(cs.frames[1].uuid) + f':0x{off:016x}')))
    ctx.reach()


def run_colour(ctx, st):
    p = _parser(ctx)
    t = _read_trace(ctx, 11111, st['sym'])
    p.color = False
    plain = p._format_trace(t)
    p.color = True
    col = p._format_trace(t)
    ctx.check('C14/colour/text-unchanged', _eq_text(ctx, ANSI.sub('', col), plain.strip()) if True else None,
              'removing the colour escape sequences does not give back the uncoloured line')
    ctx.reach()


def run_colour_log(ctx, st):
    from oracle import v3 as V
    from pykdebugparser.os_log_event import OsLogEvent
    p = _parser(ctx)
    strings = V.sample_strings_inverse()
    for raw in V.sample_logs()['Events']:
        lg = OsLogEvent.from_raw_log_event(dict(raw), strings)
        if lg.process:
            p.threads_pids[lg.thread_identifier] = lg.process_identifier
            p.pids_names[lg.process_identifier] = lg.process
        p.color = False
        plain = p._format_log(lg)
        p.color = True
        col = p._format_log(lg)
        ctx.check('C14/colour/log-text-unchanged', ANSI.sub('', col) == plain)
    ctx.reach()


def _updates(ctx, st):
    """records of the map-updating kinds, emitted by thread TID2, with symbolic declared ids"""
    by_id, by_name = sweep.codes()
    recs, meta = [], []
    ts = 10 ** 12 + 100
    for i, k in enumerate(st['upd']):
        name = UPD_NAMES[k]
        if k in ('NS', 'ES'):
            txt = ctx.bytes('nm%d' % i, 3)
            for j in range(3):
                ctx.assume(And(txt[j] != 0, txt[j] < 0x80, txt[j] != 0x28, txt[j] != 0x29))
            recs.append(K.pack_rec_data(ts, txt + bytes(29), TID, by_name[name]))
            meta.append((name, None, txt))
        else:
            w = [ctx.int('u%d_%d' % (i, j)) for j in range(4)]
            if k == 'ND':
                ctx.assume(And(w[0] >= 10000, w[0] <= 65535, w[1] >= 100, w[1] <= 999))
            elif k == 'TT':
                # the terminated thread: the emitting thread itself or another one (two values: the parser keeps its
                # per-thread names in a real dict, a free id would have to be sampled)
                ctx.assume(Or(w[0] == TID, w[0] == 22222))
            elif k in ('ED', 'TP'):
                ctx.assume(And(w[0] >= 100, w[0] <= 999))
            else:
                ctx.assume(And(w[0] >= 100, w[0] <= 999, w[1] >= 10000, w[1] <= 65535))
            recs.append(K.pack_rec(ts, w, TID, by_name[name]))
            meta.append((name, w, None))
        ts += 1
    return recs, meta, ts


def _thread_map(ctx, n, empty=None):
    """empty: index of the entry whose 20-byte command name is all zero (a declared thread of a nameless process)"""
    th = []
    for i in range(n):
        t = ctx.int('mt%d' % i)
        ctx.assume(And(t >= 10000, t <= 65535))
        th.append((t, _pid(ctx, 'mp%d' % i), b'' if i == empty else [b'procA', b'kernel_task'][i]))
    return th


def _expected_process(ctx, decl, tid, width):
    r = decl.process_of(tid)
    if r is None:
        return f'{"Error: tid " + str(tid):<{width}}'
    pid, name = r
    if isinstance(name, bytes):
        name = name.decode()
    elif hasattr(name, 'decode'):
        name = name.decode()
    return f'{name + "(" + str(pid) + ")":<{width}}'


def run_process(ctx, st):
    by_id, by_name = sweep.codes()
    threads = _thread_map(ctx, st['nmap'], st.get('empty'))
    recs, meta, ts = _updates(ctx, st)
    # trigger: getpid window on TID
    recs.append(K.pack_rec(ts, [0, 0, 0, 0], TID, by_name['BSC_getpid'] | 1))
    recs.append(K.pack_rec(ts + 1, [0, ctx.int('ret'), 0, 0], TID, by_name['BSC_getpid'] | 2))
    data = K.v2_file(threads, 0, recs)
    p = _parser(ctx)
    p.show_timestamp = False
    p.show_tid = False
    try:
        lines = list(p.formatted_traces(make_stream(data)))
    except Exception as e:      # noqa
        __import__('vxlib.symx.core', fromlist=['x']).proxy_rejected(e)
        ctx.check('C14/process/no-error', False, '%s: %s' % (type(e).__name__, e)); ctx.reach(); return
    decl = Declared([(t, pp, n.decode()) for t, pp, n in threads])
    expected = []
    for name, w, txt in meta:
        decl.apply(name, TID, w, txt.decode() if txt is not None else None)
        expected.append(_expected_process(ctx, decl, TID, 34))
    expected.append(_expected_process(ctx, decl, TID, 34))
    ctx.check('C14/process/line-per-trace', len(lines) == len(expected), '%d lines for %d traces' % (len(lines), len(expected)))
    for i, (ln, ex) in enumerate(zip(lines, expected)):
        _require_widths(ctx, ex)
        if ctx.symbolic:
            lp, ep = ctx.template(ln), ctx.template(ex)
            n = len(ep)
            ok = sweep.pieces_equal(_prefix(lp, ep), ep)
        else:
            ok = ln.startswith(ex)
        ctx.check('C14/process/column-names-declared-process', ok, 'line %d' % i)
    ctx.reach()


def _prefix(lp, ep):
    """the first pieces of lp covering as many characters/atoms as ep (splitting a literal if needed)"""
    out = []
    need = list(ep)
    for x in lp:
        if not need:
            break
        y = need[0]
        if isinstance(x, str) and isinstance(y, str):
            if len(x) >= len(y):
                out.append(x[:len(y)]); need.pop(0)
                rest = x[len(y):]
                while rest and need and isinstance(need[0], str):
                    y = need[0]
                    out[-1] = out[-1]       # literals of ep are merged already; nothing more to take
                    break
            else:
                out.append(x)
                need[0] = y[len(x):]
                # merge later so that piece boundaries match ep's
        else:
            out.append(x); need.pop(0)
    # normalise: merge adjacent literals
    norm = []
    for x in out:
        if norm and isinstance(x, str) and isinstance(norm[-1], str):
            norm[-1] += x
        else:
            norm.append(x)
    return norm


def run_process_two_dumps(ctx, st):
    """two requests on one parser object: the second dump declares nothing about the thread (no thread map, or a map
    about another thread) - its lines report the thread as unknown whatever the first dump declared"""
    by_id, by_name = sweep.codes()
    pid1 = _pid(ctx, 'p1')

    def dump(threads, ts):
        recs = [K.pack_rec(ts, [0, 0, 0, 0], TID, by_name['BSC_getpid'] | 1),
                K.pack_rec(ts + 1, [0, ctx.int('ret%d' % ts), 0, 0], TID, by_name['BSC_getpid'] | 2)]
        return K.v2_file(threads, 0, recs)
    first = dump([(TID, pid1, b'procA')], 10 ** 12 + 5)
    second = dump([] if st['second'] == 'no-map' else [(22222, _pid(ctx, 'p2'), b'other')], 10 ** 12 + 50)
    p = _parser(ctx)
    p.show_timestamp = False
    p.show_tid = False
    try:
        l1 = list(p.formatted_traces(make_stream(first)))
        l2 = list(p.formatted_traces(make_stream(second)))
    except Exception as e:      # noqa
        __import__('vxlib.symx.core', fromlist=['x']).proxy_rejected(e)
        ctx.check('C14/two-dumps/no-error', False, '%s: %s' % (type(e).__name__, e)); ctx.reach(); return
    d1 = Declared([(TID, pid1, 'procA')])
    ex1 = _expected_process(ctx, d1, TID, 34)
    ex2 = _expected_process(ctx, Declared([]), TID, 34)
    ctx.check('C14/two-dumps/line-counts', len(l1) == 1 and len(l2) == 1)
    for tag, lines, ex in (('first', l1, ex1), ('second', l2, ex2)):
        for ln in lines:
            _require_widths(ctx, ex)
            if ctx.symbolic:
                lp, ep = ctx.template(ln), ctx.template(ex)
                ok = sweep.pieces_equal(_prefix(lp, ep), ep)
            else:
                ok = ln.startswith(ex)
            ctx.check('C14/two-dumps/%s-dump-names-what-it-declares' % tag, ok, ln if not ctx.symbolic else tag)
    ctx.reach()


def run_process_callstack(ctx, st):
    """a user-stack sample (thread info requested, its thread-info record names a free thread) read from a dump: the
    callstack's header names the emitting thread and the process the dump declares for it"""
    by_id, by_name = sweep.codes()
    threads = _thread_map(ctx, st['nmap'])
    th = [ctx.int('thd%d' % j) for j in range(4)]
    ctx.assume(And(th[0] >= 100, th[0] <= 999, th[1] >= 10000, th[1] <= 65535))
    ts = 10 ** 12 + 50
    recs = [K.pack_rec(ts, [0x9, 5, 0, 0], TID, by_name['PERF_Event'] | 1),
            K.pack_rec(ts + 1, th, TID, by_name['PERF_THD_Data']),
            K.pack_rec(ts + 2, [1, 1, 0, 0], TID, by_name['PERF_STK_UHdr']),
            K.pack_rec(ts + 3, [ctx.int('frame'), 0, 0, 0], TID, by_name['PERF_STK_UData']),
            K.pack_rec(ts + 4, [0x9, 0, 0, 0], TID, by_name['PERF_Event'] | 2)]
    data = K.v2_file(threads, 0, recs)
    p = _parser(ctx)
    p.show_timestamp = False
    p.show_tid = True
    p.show_process = True
    try:
        objs = list(p.callstacks(make_stream(data)))
        lines = [p._format_callstack(c) for c in objs]
    except Exception as e:      # noqa
        __import__('vxlib.symx.core', fromlist=['x']).proxy_rejected(e)
        ctx.check('C14/process-callstack/no-error', False, '%s: %s' % (type(e).__name__, e)); ctx.reach(); return
    for c in objs:
        ctx.check('C14/process-callstack/callstack-belongs-to-the-emitting-thread', c.tid == TID, 'callstack tid %r' % (c.tid,))
        if not bool(c.tid == TID):
            ctx.reach(); return
    decl = Declared([(t, pp, n.decode()) for t, pp, n in threads])
    decl.apply('PERF_THD_Data', TID, th, None)
    ex = f'{TID:>11} ' + _expected_process(ctx, decl, TID, 34)
    ctx.check('C14/process-callstack/one-callstack', len(lines) == 1, '%d callstacks' % len(lines))
    if lines:
        head = lines[0].split('\n')[0] if not ctx.symbolic else None
        if ctx.symbolic:
            pieces = ctx.template(lines[0])
            # header = everything before the first newline
            hp = []
            for x in pieces:
                if isinstance(x, str) and '\n' in x:
                    hp.append(x.split('\n')[0]); break
                hp.append(x)
            hp = [x for x in hp if x != '']
            _require_widths(ctx, ex)
            ok = sweep.pieces_equal(_norm(hp), _norm(ctx.template(ex)))
        else:
            ok = head == ex
        ctx.check('C14/process-callstack/header-names-the-emitting-thread', ok, 'header of the callstack')
    ctx.reach()


def _norm(ps):
    out = []
    for x in ps:
        if out and isinstance(x, str) and isinstance(out[-1], str):
            out[-1] += x
        else:
            out.append(x)
    return out


def run_process_kevents(ctx, st):
    by_id, by_name = sweep.codes()
    threads = _thread_map(ctx, st['nmap'], st.get('empty'))
    w = [ctx.int('u%d' % j) for j in range(4)]
    ctx.assume(And(w[0] >= 10000, w[0] <= 65535, w[1] >= 100, w[1] <= 999))
    recs = [K.pack_rec(10 ** 12 + 5, w, TID, by_name['TRACE_DATA_NEWTHREAD']),
            K.pack_rec(10 ** 12 + 6, [0, 0, 0, 0], TID, by_name['BSC_getpid'] | 1)]
    data = K.v2_file(threads, 0, recs)
    p = _parser(ctx)
    for c in KE_COLS:
        setattr(p, c, c == 'show_process')
    lines = list(p.formatted_kevents(make_stream(data), by_id))
    decl = Declared([(t, pp, n.decode()) for t, pp, n in threads])
    ex = _expected_process(ctx, decl, TID, 27)      # the kevents listing runs no decoder: the thread map alone
    ctx.check('C14/process-kevents/line-count', len(lines) == 2)
    for ln in lines:
        ctx.check('C14/process-kevents/thread-map-only', _eq_text(ctx, ln, ex))
    ctx.reach()
