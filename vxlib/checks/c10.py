"""C10 - syscall results: errors take precedence and come only from the END record."""
import re
import z3
from vxlib import sweep
from vxlib.symx import And, Or, Not, Atom, term, describe_template
from vxlib.symx.values import mkb, W

PROPERTY = 'C10'
STUBS = ['struct.unpack model', 'enum lookup forks over members', 'format/hex/str of symbolic ints as atoms',
         'errno.errorcode as SymTable (membership = union of intervals over the host keys; name = lookup atom)',
         'AST rewrite: comprehension / cond-append / join / map merging (loader.py)']
ASSUMPTIONS = ['enum-typed START arguments range over their enum', 'events come from the real from_kd_buf',
               'rendering of an int is opaque (atoms): which word is rendered, in which form, is what is checked']
OUTSIDE = ['the exempt decoders named by the property (getters, umask, sync, getdtablesize, getlogin, execve, vfork, '
           'bsdthread_create, abort_with_payload) are not judged',
           'names of error codes (host table): C18']
EXPLORE_OPTS = {'max_paths': 20000, 'max_seconds': 900}
weight = sweep.weight

EXEMPT = {'BSC_getpid', 'BSC_getuid', 'BSC_geteuid', 'BSC_getppid', 'BSC_getegid', 'BSC_getgid', 'BSC_getpgrp',
          'BSC_umask', 'BSC_sync', 'BSC_sys_getdtablesize', 'BSC_getdtablesize', 'BSC_getlogin', 'BSC_execve', 'BSC_vfork',
          'BSC_bsdthread_create', 'BSC_abort_with_payload'}


def setup(symbolic):
    if symbolic:
        from vxlib.symx import shims, loader
        loader.install()
        shims.install()
    sweep.snapshot_state()


def bounds(tier):
    return {'decoders': 'every BSC_* name registered in TracesParser.handlers and present in the bundled table',
            'START words': 'a0..a3 free 64-bit; a second START b0..b3 free 64-bit for the independence obligation '
                           '(decoders with enum-typed arguments: second START shares the enum-typed words)',
            'END words': 'r0..r3 free 64-bit (error word zero / in the host errno table / unknown, return word arbitrary)',
            'window': 'START, END on one thread; ' + ('no lookups' if tier == 'quick' else '0 and 1 lookups')}


PROBES = ['BSC_sys_fcntl', 'BSC_read', 'BSC_mmap', 'BSC_lseek', 'BSC_issetugid', 'BSC_open']


def structures(tier):
    sts = []
    for n in sweep.decoder_names(('BSC_',)):
        if tier == 'thorough' or sweep.weight({'name': n}) == 1:
            sts.append({'name': n, 'kind': 'history'})
        sts.append({'name': n, 'lookups': 0})
        sts.append({'name': n, 'lookups': 0, 'pre': True})       # the parser tables in an arbitrary state
        if tier == 'thorough':
            sts.append({'name': n, 'lookups': 1, 'len': 5})
    # a call that stays open while the thread logs thousands of unrelated records (disk I/O inside a long read)
    for n, k in ([('BSC_read', 6000)] if tier == 'quick' else [('BSC_read', 6000), ('BSC_read', 70000), ('BSC_open', 20000), ('BSC_getpid', 20000)]):
        sts.append({'name': n, 'kind': 'long-window', 'nested': k})
    return sts


_ERR_RE = re.compile(r'^, errno: (?:([A-Z][A-Z0-9_]*)\((-?\d+)\)|(-?\d+))$')
_NUM = re.compile(r'(?<![A-Za-z_0-9])-?(?:0x[0-9a-fA-F]+|[0-9]+)(?![A-Za-z_0-9])')


def _signed64(v):
    v &= (1 << 64) - 1
    return v - (1 << 64) if v >> 63 else v


def _rforms(x):
    t = term(x)
    lo32 = z3.Extract(31, 0, t)
    lo64 = z3.Extract(63, 0, t)
    return [t, z3.ZeroExt(W - 32, lo32), z3.SignExt(W - 32, lo32), z3.SignExt(W - 64, lo64)]


def _cforms(v):
    lo32 = v & 0xffffffff
    s32 = lo32 - (1 << 32) if lo32 >> 31 else lo32
    return [v, lo32, s32, _signed64(v)]


_QTAIL = re.compile(r' [A-Za-z_]+: "[^"]*"$')


def _strip_quoted_tail(rest):
    """a trailing ' label: "looked-up text"' (fsgetpath shows the path it resolved) is call context, not a result value"""
    rest = list(rest)
    if len(rest) >= 3 and isinstance(rest[-1], str) and rest[-1] == '"' and isinstance(rest[-2], Atom) \
            and rest[-2].kind == 'bytes' and isinstance(rest[-3], str):
        m = re.search(r' [A-Za-z_]+: "$', rest[-3])
        if m:
            head = rest[-3][:m.start()]
            return rest[:-3] + ([head] if head else [])
    if rest and isinstance(rest[-1], str):
        m = _QTAIL.search(rest[-1])
        if m:
            head = rest[-1][:m.start()]
            return rest[:-1] + ([head] if head else [])
    return rest


def run_history(ctx, st):
    """the probes are decoded with the SAME END words, then Y: Y's result part equals what it is on a fresh parser state"""
    name = st['name']
    a = [ctx.int('a%d' % i) for i in range(4)]
    r = [ctx.int('r%d' % i) for i in range(4)]
    sweep.reset_state()                      # what a fresh interpreter starts from
    o1 = sweep.run_window(ctx, name, a, r)
    if o1.kind != 'text':
        ctx.reach('outcome:' + o1.kind); ctx.reach(); return
    sweep.reset_state()
    _, by_name = sweep.codes()
    for i, pr in enumerate(PROBES):
        if pr in by_name and pr != name:
            sweep.run_window(ctx, pr, [3, 0, 0, 0], r)
    o2 = sweep.run_window(ctx, name, a, r)
    sweep.reset_state()
    L = 'C10/%s' % name
    if o2.kind != 'text':
        ctx.check(L + '/history-independent', False, 'second decoding: ' + o2.kind)
    else:
        same = sweep.pieces_equal(o1.pieces, o2.pieces) if ctx.symbolic else o1.text == o2.text
        ctx.check(L + '/history-independent', same, 'same END record renders differently after other calls were decoded')
    ctx.reach()


def run_long_window(ctx, st):
    """the result comes from the END record however many unrelated records the thread logged inside the window"""
    name = st['name']
    a = [ctx.int('a%d' % i) for i in range(4)]
    r = [ctx.int('r%d' % i) for i in range(4)]
    o1 = sweep.run_window(ctx, name, a, r)
    if o1.kind != 'text':
        ctx.reach('outcome:' + o1.kind); ctx.reach(); return
    o2 = sweep.run_window(ctx, name, a, r, nested=st['nested'])
    L = 'C10/%s' % name
    if o2.kind != 'text':
        ctx.check(L + '/long-window', False, 'with %d nested records: %s' % (st['nested'], o2.kind))
    else:
        same = sweep.pieces_equal(o1.pieces, o2.pieces) if ctx.symbolic else o1.text == o2.text
        ctx.check(L + '/long-window', same, 'the line differs when %d unrelated records lie inside the window' % st['nested'])
    ctx.reach()


def run(ctx, st):
    if st.get('kind') == 'history':
        return run_history(ctx, st)
    if st.get('kind') == 'long-window':
        return run_long_window(ctx, st)
    name = st['name']
    a = [ctx.int('a%d' % i) for i in range(4)]
    b = [ctx.int('b%d' % i) for i in range(4)]
    r = [ctx.int('r%d' % i) for i in range(4)]
    lookups = []
    if st['lookups']:
        text = ctx.bytes('path', st['len'])
        for i in range(st['len']):
            ctx.assume(And(text[i] != 0, text[i] < 0x80, text[i] != 0x22, text[i] != 0x5c))
        lookups = [(text, ctx.int('vnode'))]
    if st.get('pre'):
        o1 = sweep.with_prestate(ctx, lambda tabs: sweep.run_window(ctx, name, a, r, lookups, tables=tabs))
    else:
        o1 = sweep.run_window(ctx, name, a, r, lookups)
    if o1.kind != 'text':
        ctx.reach('outcome:' + o1.kind)
        ctx.reach()
        return
    ctx.observe('text', o1.text)
    cs = sweep.split_call(o1.pieces)
    L = 'C10/%s' % name
    ctx.check(L + '/shape', cs.ok)
    rest = _strip_quoted_tail(cs.rest)
    pipe = name == 'BSC_pipe'
    if name in EXEMPT:
        # the property exempts these calls altogether (they cannot fail or do not return)
        ctx.reach('exempt')
        ctx.reach()
        return
    if True:
        if ctx.symbolic:
            iserr = bool(r[0] != 0)          # decided by the path condition, or forked here
            lits = ''.join(x for x in rest if isinstance(x, str))
            atoms = sweep.atoms_of(rest)
            if iserr:
                # exactly ', errno: NAME(code)' or ', errno: code' with code == r0 and nothing else
                ok_shape = False
                if len(rest) == 2 and rest[0] == ', errno: ' and isinstance(rest[1], Atom) and rest[1].kind == 'd':
                    ok_shape = mkb(rest[1].term == term(r[0]))
                elif (len(rest) == 5 and rest[0] == ', errno: ' and isinstance(rest[1], Atom) and rest[1].kind == 'lookup'
                      and rest[2] == '(' and isinstance(rest[3], Atom) and rest[3].kind == 'd' and rest[4] == ')'):
                    ok_shape = And(mkb(rest[1].term == term(r[0])), mkb(rest[3].term == term(r[0])))
                elif (len(rest) == 3 and isinstance(rest[0], str) and isinstance(rest[1], Atom) and rest[1].kind == 'd'
                      and rest[2] == ')' and re.match(r'^, errno: [A-Z][A-Z0-9_]*\($', rest[0])):
                    ok_shape = mkb(rest[1].term == term(r[0]))      # name resolved to a literal by a small table
                ctx.check(L + '/errno-exact', ok_shape, 'result part on an error path: ' + describe_template(rest))
            else:
                ctx.check(L + '/no-errno-on-success', 'errno' not in lits)
                allowed = [r[1], r[2]] if pipe else [r[1]]
                for at in atoms:
                    if at.is_numeric():
                        ctx.check(L + '/success-value-from-return-word',
                                  Or(*[mkb(at.term == f) for x in allowed for f in _rforms(x)]),
                                  'success value renders ' + at.describe())
                    else:
                        ctx.check(L + '/success-value-from-return-word', False, 'non-numeric atom in result: ' + at.describe())
        else:
            txt = ''.join(rest)
            if r[0] != 0:
                m = _ERR_RE.match(txt)
                code = int(m.group(2) or m.group(3)) if m else None
                ctx.check(L + '/errno-exact', m is not None and code in (r[0], _signed64(r[0])), 'result part: %r' % txt)
            else:
                ctx.check(L + '/no-errno-on-success', 'errno' not in txt)
                allowed = [r[1], r[2]] if pipe else [r[1]]
                rend = {s for x in allowed for f in _cforms(x) for s in (str(f), hex(f))}
                for lit in _NUM.findall(txt):
                    ctx.check(L + '/success-value-from-return-word', lit in rend, 'result part %r' % txt)
    if st.get('pre'):
        ctx.reach()
        return
    # result part depends only on the END record: another START (same decoder, same END) gives the same result part.
    # The second START shares the words the first run forked on (enum-typed arguments), so that the product
    # does not square the number of paths; the other words are free.
    if ctx.symbolic:
        from vxlib.symx.core import eng
        forked = set()
        for c in eng().pc:
            forked |= sweep.term_vars(c)
        for i in range(4):
            if ('a%d' % i) in forked:
                ctx.assume(b[i] == a[i])
    o2 = sweep.run_window(ctx, name, b, r, lookups)
    if o2.kind != 'text':
        ctx.reach('outcome2:' + o2.kind)
    else:
        cs2 = sweep.split_call(o2.pieces)
        ctx.check(L + '/result-independent-of-START', sweep.pieces_equal(rest, _strip_quoted_tail(cs2.rest)))
    ctx.reach()
