"""C03 - a version-3 dump yields all chunked events, then logs, plus metadata sections."""
import itertools
from oracle import kdebug as K
from oracle import v3 as V
from vxlib.symx import And, Or, Not, Implies, SymMap
from vxlib.symx.stream import make_stream

PROPERTY = 'C03'
STUBS = ['struct.unpack model (construct Int32ul/Int64ul/Byte)', 'SymStream (construct itself is executed: Aligned, Prefixed, '
         'GreedyRange, Select with tell/seek fallback)', 'SymMap for the thread tables',
         'plistlib and CString run on concrete regions of the stream']
ASSUMPTIONS = ['the file is written by oracle/v3.py, the inverse of the grammar the parser documents (no sample, no spec)',
               'the symbolic stackshot filler contains no 8-byte window equal to the thread-map tag (the format is '
               'ambiguous otherwise, as the source comment says)',
               'thread-map entries, plist payloads and log records are concrete representatives (C boundaries)']
OUTSIDE = ['conformance to Apple\'s format', 'for-all over plist payload contents', 'more than 3 events / 3 chunks / 4 blocks']
EXPLORE_OPTS = {'max_paths': 40000, 'max_seconds': 900}

KEXT1, KEXT2 = {'Binaries': [{'name': 'k1'}]}, {'Binaries': [{'name': 'k2'}, {'name': 'k3'}]}
KEXT3 = {'Binaries': [{'name': 'k2'}, {'name': 'k4'}, {'name': 'k4'}]}       # repeats an entry of KEXT2 and one of its own


def _dm(width, precision):
    return {'pc': 1, 's': 0, 'seg': [{'lp': 1, 'p': {'rs': 7, 't': [6], 'tn': 5, 'ty': 6, 'w': width, 'p': precision},
                                      'a': {'a': 3, 'p': 1, 'c': 2, 'or': 4}}]}


# two records whose message uses the same format specifier with different run-time width / precision
LOGS3 = {'Events': [V.mandatory(4, 0x504, dm=_dm(0, 5)), V.mandatory(1, 0x504, dm=_dm(2, 11))]}
DYLD1, DYLD2 = {'Binaries': [{'p': 'a'}], 'Extra': 1}, {'Binaries': [{'p': 'b'}]}
PROCS = {'Processes': [{'pid': 1, 'name': 'launchd'}]}
IMAGES = {'Images': [{'uuid': 'X'}]}
BLOCKS = {
    'codes1': ('codes', '0x40c0004\tBSC_exit\n'), 'codes2': ('codes', '0x40c0008\tBSC_fork\n'),
    'kext1': ('kexts', KEXT1), 'kext2': ('kexts', KEXT2), 'dyld1': ('dyld', DYLD1), 'dyld2': ('dyld', DYLD2),
    'procs': ('processes', PROCS), 'images': ('images', IMAGES), 'strings': ('strings', V.sample_strings()),
    'logs': ('logs', V.sample_logs()), 'logs2': ('logs', {'Events': [V.mandatory(4, 0x503, p=0, pid=70)]}),
    'logs0': ('logs', {'Events': []}), 'logs3': ('logs', LOGS3), 'kext3': ('kexts', KEXT3),
    # records of a thread the thread map already lists under the same pid but another name, then yet another name
    'logs4': ('logs', {'Events': [V.mandatory(4, 0x77, p=0, pid=7), V.mandatory(1, 0x77, p=3, pid=7)]}),
}


def setup(symbolic):
    if symbolic:
        from vxlib.symx import shims
        shims.install()


def bounds(tier):
    return {'events': 'm <= %d, every byte symbolic; every split into 1..3 chunks including empty chunks' % (2 if tier == 'quick' else 3),
            'thread map': '0..2 concrete entries', 'stackshot filler': 'k symbolic bytes, k in %s' % ('{0,5,17}' if tier == 'quick' else '0..24'),
            'blocks': ('6 representative block sequences' if tier == 'quick' else 'all orders of up to 4 blocks from 12 representatives (sampled by seed beyond 200)'),
            'logs': '0..3 concrete records in 0..2 blocks'}


def splits(m, kmax=3):
    out = []
    for k in range(1, kmax + 1):
        for c in itertools.product(range(m + 1), repeat=k):
            if sum(c) == m:
                out.append(list(c))
    return out


SEQS_QUICK = [
    [], ['strings', 'logs'], ['codes1', 'kext1', 'codes2', 'kext2'], ['dyld1', 'dyld2', 'procs', 'images'],
    ['logs', 'strings', 'logs2'], ['images', 'strings', 'logs0', 'codes1'],
    ['strings', 'logs3', 'logs'], ['kext2', 'kext3', 'kext1', 'kext3'], ['strings', 'logs4'],
]


def structures(tier):
    sts = []
    tms = [[], [[0x77, 7, 'procA']], [[0x77, 7, 'procA'], [0x78, 8, '']]]
    RAW = 'launchd\x00\x00\x00\x00\x00ion_\x00\x00\x00\x00'           # a 20-byte command field with bytes after the first NUL
    sts.append({'m': 1, 'split': [1], 'threads': [[0x77, 7, RAW], [0x78, 8, 'procB']], 'filler': 0, 'blocks': ['strings', 'logs']})
    if tier == 'quick':
        for sp in splits(2):
            sts.append({'m': 2, 'split': sp, 'threads': tms[1], 'filler': 0, 'blocks': ['strings', 'logs']})
        for sp in ([0], [1], [1, 0]):
            sts.append({'m': sum(sp), 'split': sp, 'threads': tms[2], 'filler': 0, 'blocks': []})
        for k in (5, 17):
            sts.append({'m': 1, 'split': [1], 'threads': tms[1], 'filler': k, 'blocks': ['codes1']})
        for seq in SEQS_QUICK:
            for tm in (tms[0], tms[2]):
                sts.append({'m': 1, 'split': [1], 'threads': tm, 'filler': 0, 'blocks': seq})
    else:
        for m in (0, 1, 2, 3):
            for sp in splits(m):
                sts.append({'m': m, 'split': sp, 'threads': tms[1], 'filler': 0, 'blocks': ['strings', 'logs']})
        for k in range(0, 25):
            sts.append({'m': 1, 'split': [1], 'threads': tms[1], 'filler': k, 'blocks': ['codes1']})
        names = sorted(BLOCKS)
        seqs = [[]]
        for n in (1, 2, 3, 4):
            seqs += [list(p) for p in itertools.permutations(names, n)]
        import random, os
        rng = random.Random(int(os.environ.get('VERIF_SEED', '0') or 0))
        small = [s for s in seqs if len(s) <= 2]
        big = [s for s in seqs if len(s) > 2]
        rng.shuffle(big)
        for seq in small + big[:200] + SEQS_QUICK:
            sts.append({'m': 1, 'split': [1], 'threads': tms[2], 'filler': 0, 'blocks': seq})
        for tm in tms:
            sts.append({'m': 2, 'split': [1, 1], 'threads': tm, 'filler': 3, 'blocks': ['strings', 'logs', 'logs2']})
    sts.append({'kind': 'two-dumps', 'blocks2': [['kext1', 'dyld1', 'codes1', 'procs', 'images'], ['kext2', 'dyld2', 'codes2']]})
    sts.append({'kind': 'two-dumps', 'blocks2': [['kext1', 'kext2', 'dyld1', 'dyld2'], []]})
    return sts


def weight(st):
    return st.get('filler', 0) * 5 + st.get('m', 1)


def expected_metadata(blocks):
    codes = ''
    kexts = {'Binaries': []}
    dyld = {}
    procs, images = {}, {}
    logs = []
    strings = {}
    for nm in blocks:
        kind, payload = BLOCKS[nm]
        if kind == 'codes':
            codes += payload
        elif kind == 'kexts':
            kexts['Binaries'] = kexts['Binaries'] + payload['Binaries']
        elif kind == 'dyld':
            if not dyld:
                dyld = {k: (list(v) if isinstance(v, list) else v) for k, v in payload.items()}
            else:
                dyld['Binaries'] = dyld['Binaries'] + payload['Binaries']
        elif kind == 'processes':
            procs = payload
        elif kind == 'images':
            images = payload
        elif kind == 'logs':
            logs = logs + payload['Events']
        elif kind == 'strings':
            strings = {v: k for k, v in payload['StringIndex'].items()}
    return codes, kexts, dyld, procs, images, logs, strings


def run_two_dumps(ctx, st):
    """a second dump parsed by a second parser object in the same process exposes its own sections only"""
    from pykdebugparser.kd_buf_parser import KdBufParser
    recs = [ctx.bytes('rec%d' % i, 64) for i in range(2)]
    outs = []
    for i, blocks in enumerate(st['blocks2']):
        data = V.v3_file([(0x77 + i, 7 + i, b'proc')], [[recs[i]]], [BLOCKS[nm] for nm in blocks], between=bytes(8))
        p = KdBufParser(SymMap() if ctx.symbolic else {}, SymMap() if ctx.symbolic else {})
        try:
            out = list(p.parse(make_stream(data)))
        except Exception as e:      # noqa
            __import__('vxlib.symx.core', fromlist=['x']).proxy_rejected(e)
            ctx.check('C03/two-dumps/no-error', False, '%s: %s' % (type(e).__name__, e)); ctx.reach(); return
        codes, kexts, dyld, procs, images, logs, strings = expected_metadata(blocks)
        L = 'C03/two-dumps/%s' % ('first' if i == 0 else 'second')
        ctx.check(L + '/kexts', p.kernel_extensions == kexts, repr(p.kernel_extensions))
        ctx.check(L + '/dyld', p.dyld_modules == dyld, repr(p.dyld_modules))
        ctx.check(L + '/trace-codes', p.trace_codes == codes)
        ctx.check(L + '/processes-images', p.processes == procs and p.images == images)
        ctx.check(L + '/threads', dict(p.threads_pids.items()) == {0x77 + i: 7 + i})
    ctx.reach()


def run(ctx, st):
    if st.get('kind') == 'two-dumps':
        return run_two_dumps(ctx, st)
    from pykdebugparser.kd_buf_parser import KdBufParser
    from pykdebugparser.kevent import Kevent
    from pykdebugparser.os_log_event import OsLogEvent
    m = st['m']
    records = [ctx.bytes('rec%d' % i, 64) for i in range(m)]
    chunks = []
    it = iter(records)
    for c in st['split']:
        chunks.append([next(it) for _ in range(c)])
    filler = ctx.bytes('filler', st['filler']) if st['filler'] else b''
    for i in range(0, st['filler'] - 7):
        ctx.assume(Not(filler[i:i + 8] == V.TAG_THREADMAP))
    threads = [(t, p, n.encode()) for t, p, n in st['threads']]
    codes, kexts, dyld, procs, images, logs, strings = expected_metadata(st['blocks'])
    resolvable = all(e['cm'] in strings and all(e[k] in strings for k in ('p', 'pip') if k in e) for e in logs)
    data = V.v3_file(threads, chunks, [BLOCKS[nm] for nm in st['blocks']], filler=filler, between=bytes(8))
    tp = SymMap(name='threads_pids') if ctx.symbolic else {}
    pn = SymMap(name='pids_names') if ctx.symbolic else {}
    parser = KdBufParser(tp, pn)
    out, err = [], None
    try:
        for x in parser.parse(make_stream(data)):
            out.append(x)
    except Exception as e:      # noqa
        __import__('vxlib.symx.core', fromlist=['x']).proxy_rejected(e)
        err = e
    L = 'C03'
    if not resolvable:
        # a log record whose string ids the dump does not define is outside the statement (strings are resolved
        # 'through the dump's string index'); only the events are judged
        ctx.reach('unresolvable-logs')
    else:
        ctx.check(L + '/no-error', err is None, '%s: %s' % (type(err).__name__, err))
    evs = [x for x in out if isinstance(x, Kevent)]
    lgs = [x for x in out if isinstance(x, OsLogEvent)]
    ctx.observe('events', [[e.timestamp, e.tid, e.debugid] for e in evs])
    ctx.check(L + '/only-events-and-logs', len(evs) + len(lgs) == len(out))
    first_log = next((i for i, x in enumerate(out) if isinstance(x, OsLogEvent)), len(out))
    ctx.check(L + '/events-before-logs', all(isinstance(x, Kevent) for x in out[:first_log]) and
              all(isinstance(x, OsLogEvent) for x in out[first_log:]))
    ctx.check(L + '/event-count', len(evs) == m, '%d events for %d records' % (len(evs), m))
    for i in range(min(m, len(evs))):
        spec = K.Rec(records[i])
        e = evs[i]
        ctx.check(L + '/event', And(e.timestamp == spec.timestamp, e.data == spec.data, e.tid == spec.tid,
                                    e.debugid == spec.debugid, e.eventid == spec.eventid, e.func_qualifier == spec.func,
                                    *[e.values[k] == spec.args[k] for k in range(4)]), 'event %d' % i)
    if err is None and resolvable:
        ctx.check(L + '/trace-codes', parser.trace_codes == codes, repr(parser.trace_codes))
        ctx.check(L + '/kexts', parser.kernel_extensions == kexts, repr(parser.kernel_extensions))
        ctx.check(L + '/dyld', parser.dyld_modules == dyld, repr(parser.dyld_modules))
        ctx.check(L + '/processes', parser.processes == procs)
        ctx.check(L + '/images', parser.images == images)
        ctx.check(L + '/log-count', len(lgs) == len(logs), '%d logs for %d records' % (len(lgs), len(logs)))
        exp_tp = {t: p for t, p, _ in threads}
        exp_pn = {p: n.split(b'\x00')[0].decode() for _, p, n in threads}
        for lg, raw in zip(lgs, logs):
            ctx.check(L + '/log', lg.composed_message == strings[raw['cm']] and lg.thread_identifier == raw['tid'] and
                      lg.process == (strings[raw['p']] if 'p' in raw else '') and
                      lg.process_identifier == raw.get('pid', 0) and
                      lg.process_image_path == (strings[raw['pip']] if 'pip' in raw else ''), repr(lg)[:200])
            if 'dm' in raw:
                from oracle import oslog as O
                ctx.check(L + '/log-message-segments', lg.decomposed_message == O.decode_dm(raw['dm'], strings),
                          repr(lg.decomposed_message)[:300])
            if 'p' in raw and raw['tid']:
                exp_tp[raw['tid']] = raw.get('pid', 0)
                exp_pn[raw.get('pid', 0)] = strings[raw['p']]
        ctx.check(L + '/thread-table', dict(tp.items()) == exp_tp, repr(dict(tp.items())))
        ctx.check(L + '/name-table', dict(pn.items()) == exp_pn, repr(dict(pn.items())))
        ctx.check(L + '/header', parser.v3_header is not None and parser.v3_header.timestamp == V.HEADER_DEFAULTS['timestamp']
                  and parser.v3_header.timebase_numer == V.HEADER_DEFAULTS['timebase_numer'])
    ctx.reach()
