"""C07 - missing or unexpected context never aborts the trace stream."""
from oracle import kdebug as K
from oracle import darwin as D
from vxlib import sweep
from vxlib.symx import And, Or, Not, SymMap, OutOfDomain

PROPERTY = 'C07'
STUBS = ['struct.unpack model', 'enum forks (a value outside the enum = outside the precondition)', 'atoms', 'errno SymTable',
         'AST merge rewrites', 'SymMap for threads_pids / pids_names / global_strings / tids_names']
ASSUMPTIONS = ['every event is individually in-domain: enum-typed words range over their enum (paths raising the enum\'s ValueError '
               'are outside the precondition); ioctl requests have one of the four _IOC directions; strings are non-NUL ASCII',
               'image-map records carry concrete uuid bytes (UUID() is a C boundary)',
               'name/path strings: 3 symbolic bytes followed by NUL padding']
OUTSIDE = ['event histories beyond the enumerated scenarios', 'non-ASCII strings']
EXPLORE_OPTS = {'max_paths': 30000, 'max_seconds': 900}
TID = sweep.TID
weight = sweep.weight

GENERIC = ['pair', 'end-only', 'start-only', 'none', 'all', 'foreign-inside', 'nested']
UUID_CODES = {'DYLD_uuid_map_a', 'DYLD_uuid_unmap_a', 'DYLD_uuid_shared_cache_a'}
STRING_CODES = {'TRACE_STRING_NEWTHREAD', 'TRACE_STRING_EXEC', 'TRACE_STRING_PROC_EXIT', 'TRACE_STRING_THREADNAME',
                'TRACE_STRING_THREADNAME_PREV', 'TRACE_STRING_GLOBAL', 'VFS_LOOKUP'}
GSTRING_USERS = {'DBG_DYLD_TIMING_MAP_IMAGE': 1, 'DBG_DYLD_TIMING_DLOPEN': 1, 'DBG_DYLD_TIMING_DLOPEN_PREFLIGHT': 1,
                 'DBG_DYLD_TIMING_DLSYM': 2}
REAL_FAULT = ['RealFaultAddressInternal', 'RealFaultAddressPurgeable', 'RealFaultAddressExternal', 'RealFaultAddressSharedCache']


def setup(symbolic):
    if symbolic:
        from vxlib.symx import shims, loader
        loader.install()
        shims.install()


def bounds(tier):
    return {'decoders': 'all registered decoders (7 families)', 'scenarios per decoder': GENERIC,
            'extra scenarios': 'path decoders: 0..3 lookups and a lookup whose first chunk was dropped; string users: id '
                               'defined / undefined / zero; name records with / without their data record; vmfault with 0..2 '
                               'nested real-fault records of each kind; sampler with / without header and data records',
            'arbitrary tables': 'every decoder, START..END pair and single record, with the four parser tables in an arbitrary '
                                'pre-state: each of up to 3 distinct keys consulted per table is bound or not, pids free 32-bit, '
                                'names from 3 representatives (one empty)',
            'words': 'all four words of every event free 64-bit (strings: 3 free bytes)'}


def all_names():
    from pykdebugparser.traces_parser import TracesParser
    _, by_name = sweep.codes()
    return sorted(n for n in TracesParser({}, {}, {}).handlers if n in by_name)


def structures(tier):
    from vxlib.checks import c08
    sts = []
    names = all_names()
    for n in names:
        for sc in GENERIC:
            if tier == 'quick' and sweep.weight({'name': n}) > 1 and sc in ('all', 'foreign-inside', 'nested'):
                continue        # decoders with hundreds of paths per scenario: the remaining scenarios run in thorough
            sts.append({'name': n, 'sc': sc})
    for n in names:
        # one step from an arbitrary state of the parser tables (threads_pids, pids_names, tids_names, global_strings)
        sts.append({'name': n, 'sc': 'pair', 'pre': True})
        sts.append({'name': n, 'sc': 'none', 'pre': True})
    for n in c08.path_decoders():
        for k in (0, 1, 2, 3):
            sts.append({'name': n, 'sc': 'lookups', 'k': k})
        sts.append({'name': n, 'sc': 'lookup-first-chunk-dropped'})
    for n, argi in GSTRING_USERS.items():
        for mode in ('defined', 'undefined', 'zero'):
            sts.append({'name': n, 'sc': 'string-id', 'mode': mode})
    for n in ('TRACE_STRING_NEWTHREAD', 'TRACE_STRING_EXEC'):
        for with_data in (True, False):
            sts.append({'name': n, 'sc': 'name-record', 'data': with_data})
    import itertools
    kinds = REAL_FAULT
    seqs = [[]] + [[a] for a in kinds] + [[a, b] for a in kinds for b in kinds]
    if tier == 'quick':     # two decoded nested records square the path count (12k paths each): one representative pair
        seqs = [s_ for s_ in seqs if len(s_) < 2 or 'RealFaultAddressPurgeable' in s_]
    for s in seqs:
        if len(s) == 2 and 'RealFaultAddressPurgeable' not in s:
            for ft in range(0, 13):     # shard by the fault type byte of the first nested record (12 = any other value)
                sts.append({'name': 'MACH_vmfault', 'sc': 'vmfault', 'nested': s, 'ft': ft})
        else:
            sts.append({'name': 'MACH_vmfault', 'sc': 'vmfault', 'nested': s})
    for hdr in (False, True):
        for nd in (0, 1, 2):
            for thd in (False, True):
                sts.append({'name': 'PERF_Event', 'sc': 'sampler', 'hdr': hdr, 'nd': nd, 'thd': thd})
    img = ['DYLD_uuid_map_a', 'DYLD_uuid_shared_cache_a']
    for ks in [[]] + [[a] for a in img] + [[a, b] for a in img for b in img] + ([[a, b, a] for a in img for b in img] if tier == 'thorough' else []):
        sts.append({'name': 'DBG_DYLD_TIMING_LAUNCH_EXECUTABLE', 'sc': 'launch', 'images': ks})
    for k in range(4 if tier == 'quick' else 12):
        sts.append({'name': 'BSC_getpid', 'sc': 'long', 'n': 40000 + 1013 * k, 'seed': k})
    # a call whose END was lost, then exactly m records of the thread, then a complete call: m around every power of two
    # (where a bounded per-thread backlog would overflow)
    for e in range(8, 17 if tier == 'quick' else 18):
        sts.append({'name': 'BSC_getpid', 'sc': 'backlog', 'ms': [2 ** e - 2, 2 ** e - 1, 2 ** e, 2 ** e + 1]})
    return sts


def _words(ctx, tag):
    return [ctx.int('%s%d' % (tag, i)) for i in range(4)]


def _mk(ctx, tag, name, qual, ts, words=None):
    """one in-domain event of decoder `name`"""
    _, by_name = sweep.codes()
    code = by_name[name] | qual
    if name in UUID_CODES:
        data = bytes(range(16)) + K.to_le(ctx.int(tag + 'addr'), 8) + K.to_le(ctx.int(tag + 'fsid'), 8)
        return sweep.make_event_data(ts, data, TID, code)
    if name in STRING_CODES:
        txt = ctx.bytes(tag + 'txt', 3)
        for i in range(3):
            ctx.assume(And(txt[i] != 0, txt[i] < 0x80))
        if name == 'VFS_LOOKUP' and qual & 1:
            data = K.to_le(ctx.int(tag + 'vn'), 8) + txt + bytes(21)
        elif name == 'TRACE_STRING_GLOBAL' and qual & 1:
            data = K.to_le(ctx.int(tag + 'dbg', 32), 8) + K.to_le(ctx.int(tag + 'sid'), 8) + txt + bytes(13)
        else:
            data = txt + bytes(29)
        return sweep.make_event_data(ts, data, TID, code)
    w = words if words is not None else _words(ctx, tag)
    if name == 'BSC_ioctl':
        ctx.assume(Or(*[(w[1] & D.IOC_DIRMASK) == k for k in D.IOC_DIRS]))
    return sweep.make_event(ts, w, TID, code)


def _parser(ctx):
    p = sweep.new_parser()
    if ctx.symbolic:
        p.global_strings = SymMap(name='global_strings')
        p.tids_names = SymMap(name='tids_names')
    return p


def scenario_events(ctx, st):
    name, sc = st['name'], st['sc']
    _, by_name = sweep.codes()
    S, E = K.DBG_FUNC_START, K.DBG_FUNC_END
    if sc == 'pair':
        return [_mk(ctx, 'a', name, S, 10), _mk(ctx, 'r', name, E, 20)], None
    if sc == 'end-only':
        return [_mk(ctx, 'r', name, E, 20)], None
    if sc == 'start-only':
        return [_mk(ctx, 'a', name, S, 10)], None
    if sc == 'none':
        return [_mk(ctx, 'a', name, 0, 10)], None
    if sc == 'all':
        return [_mk(ctx, 'a', name, 3, 10)], None
    if sc == 'foreign-inside':
        foreign = sweep.make_event(15, _words(ctx, 'f'), TID, by_name['proc_exit'])
        return [_mk(ctx, 'a', name, S, 10), foreign, _mk(ctx, 'r', name, E, 20)], None
    if sc == 'nested':
        return [_mk(ctx, 'a', name, S, 10), _mk(ctx, 'b', name, S, 12), _mk(ctx, 'r', name, E, 20), _mk(ctx, 's', name, E, 22)], None
    if sc == 'lookups':
        evs = [_mk(ctx, 'a', name, S, 10)]
        for i in range(st['k']):
            evs.append(_mk(ctx, 'l%d' % i, 'VFS_LOOKUP', 3, 11 + i))
        evs.append(_mk(ctx, 'r', name, E, 20))
        return evs, None
    if sc == 'lookup-first-chunk-dropped':
        # the END-qualified tail of a long lookup whose START record is missing, followed by a complete lookup
        tail = _mk(ctx, 'lt', 'VFS_LOOKUP', E, 11)
        return [_mk(ctx, 'a', name, S, 10), tail, _mk(ctx, 'l0', 'VFS_LOOKUP', 3, 12), _mk(ctx, 'r', name, E, 20)], None
    if sc == 'string-id':
        argi = GSTRING_USERS[name]
        w = _words(ctx, 'a')
        evs = []
        if st['mode'] == 'zero':
            ctx.assume(w[argi] == 0)
        else:
            ctx.assume(w[argi] != 0)
        if st['mode'] == 'defined':
            _, bn = sweep.codes()
            txt = ctx.bytes('gtxt', 3)
            for i in range(3):
                ctx.assume(And(txt[i] != 0, txt[i] < 0x80))
            data = K.to_le(0, 8) + K.to_le(w[argi], 8) + txt + bytes(13)
            evs.append(sweep.make_event_data(5, data, TID, bn['TRACE_STRING_GLOBAL'] | 3))
        evs += [_mk(ctx, 'a', name, S, 10, w), _mk(ctx, 'r', name, E, 20)]
        return evs, None
    if sc == 'name-record':
        evs = []
        if st['data']:
            evs.append(_mk(ctx, 'd', name.replace('STRING', 'DATA'), 0, 9))
        evs.append(_mk(ctx, 'a', name, 0, 10))
        return evs, None
    if sc == 'vmfault':
        evs = [_mk(ctx, 'a', name, S, 10)]
        for i, k in enumerate(st['nested']):
            w = _words(ctx, 'n%d' % i)
            if i == 0 and 'ft' in st:
                if st['ft'] < 12:
                    ctx.assume((w[1] & 0xff) == st['ft'])
                else:
                    ctx.assume((w[1] & 0xff) >= 12)
            evs.append(_mk(ctx, 'n%d' % i, k, 0, 11 + i, w))
        evs.append(_mk(ctx, 'r', name, E, 20))
        return evs, None
    if sc == 'launch':
        # nested image records with free load addresses (equal addresses included) and free timestamps order
        evs = [_mk(ctx, 'a', name, S, 10)]
        for i, k in enumerate(st['images']):
            evs.append(_mk(ctx, 'i%d' % i, k, 0, 11 + i))
        evs.append(_mk(ctx, 'r', name, E, 20))
        return evs, None
    if sc == 'sampler':
        evs = [_mk(ctx, 'a', name, S, 10)]
        if st['thd']:
            evs.append(_mk(ctx, 't', 'PERF_THD_Data', 0, 11))
        if st['hdr']:
            h = _words(ctx, 'h')
            ctx.assume(h[1] <= 9)
            evs.append(_mk(ctx, 'h', 'PERF_STK_UHdr', 0, 12, h))
        for i in range(st['nd']):
            evs.append(_mk(ctx, 'u%d' % i, 'PERF_STK_UData', 0, 13 + i))
        evs.append(_mk(ctx, 'r', name, E, 20))
        return evs, None
    raise AssertionError(sc)


def label_of(st):
    sc = st['sc']
    if sc == 'lookups':
        sc = 'lookups=%d' % st['k']
    elif sc == 'string-id':
        sc = 'string-id-' + st['mode']
    elif sc == 'name-record':
        sc = 'name-record-' + ('with' if st['data'] else 'without') + '-data'
    elif sc == 'vmfault':
        sc = 'nested=' + ('+'.join(x.replace('RealFaultAddress', '') for x in st['nested']) or 'none')
    elif sc == 'sampler':
        sc = 'sampler-hdr%d-data%d-thd%d' % (st['hdr'], st['nd'], st['thd'])
    elif sc == 'launch':
        sc = 'launch-images=%d' % len(st['images'])
    return 'C07/%s/%s%s' % (st['name'], sc, '/arbitrary-tables' if st.get('pre') else '')


def _safe(e):
    from vxlib.symx import has_atoms
    try:
        t = str(e)
    except BaseException:       # noqa
        return '<unprintable>'
    return '<message mentions a symbolic value>' if has_atoms(t) else t[:120]


def run_long(ctx, st):
    """a long concrete (seeded) history with operations that stay open for tens of thousands of records: the stream is
    processed to the end (per-thread backlogs, caches and their overflow handling)"""
    import random
    from pykdebugparser.kevent import Kevent
    _, by_name = sweep.codes()
    rng = random.Random(99 + st['seed'])
    names = ['BSC_getpid', 'BSC_getppid', 'BSC_read', 'BSC_sync', 'proc_exit', 'TRACE_DATA_EXEC', 'MACH_SCHED']
    tids = [0x101, 0x202]
    p = _parser(ctx)
    n = st['n']
    sym_at = n // 3
    try:
        for i in range(n):
            nm = rng.choice(names)
            q = rng.choice([1, 1, 2, 0, 3])
            tid = tids[0] if rng.random() < 0.7 else tids[1]
            if i == 0:
                nm, q, tid = 'BSC_getppid', 1, tids[0]           # never ended
            if i == sym_at:
                ev = _mk(ctx, 'x', 'BSC_read', 1, i)
                ev = ev._replace(tid=tid)
            else:
                eid = by_name[nm]
                w = (i & 0xff, 2, 3, 4)
                ev = Kevent(i, b''.join(x.to_bytes(8, 'little') for x in w), w, tid, eid | q, eid, q)
            t = p.feed(ev)
            if t is not None:
                str(t)
    except OutOfDomain:
        ctx.reach('ood'); ctx.reach(); return
    except Exception as e:      # noqa
        __import__('vxlib.symx.core', fromlist=['x']).proxy_rejected(e)
        ctx.check('C07/long-history', False, 'event %d: %s: %s' % (i, type(e).__name__, _safe(e))); ctx.reach(); return
    ctx.check('C07/long-history', True)
    ctx.reach()


def run_backlog(ctx, st):
    from pykdebugparser.kevent import Kevent
    _, by_name = sweep.codes()
    T = 0x101
    for m in st['ms']:
        p = _parser(ctx)
        L = 'C07/backlog-boundary'
        try:
            i = 0
            def ev(name, q, w):
                eid = by_name[name]
                return Kevent(i, b''.join(x.to_bytes(8, 'little') for x in w), tuple(w), T, eid | q, eid, q)
            p.feed(ev('BSC_getppid', 1, (0, 0, 0, 0)))           # its END never arrives
            for i in range(1, m + 1):
                t = p.feed(ev(('BSC_sync', 'proc_exit', 'MACH_SCHED')[i % 3], 0, (i & 0xff, 2, 3, 4)))
                if t is not None:
                    str(t)
            i = m + 1
            p.feed(_mk(ctx, 'x%d' % m, 'BSC_read', 1, i)._replace(tid=T))
            i = m + 2
            t = p.feed(ev('BSC_read', 2, (0, 5, 0, 0)))
            got = None if t is None else str(t)
        except OutOfDomain:
            ctx.reach('ood'); continue
        except Exception as e:      # noqa
            __import__('vxlib.symx.core', fromlist=['x']).proxy_rejected(e)
            ctx.check(L, False, 'm=%d: %s: %s' % (m, type(e).__name__, _safe(e)))
            continue
        ctx.check(L, True)
        ctx.check(L + '/complete-call-still-traced', got is not None, 'm=%d: the START..END pair after the backlog produced no trace' % m)
    ctx.reach()


def run(ctx, st):
    if st['sc'] == 'long':
        return run_long(ctx, st)
    if st['sc'] == 'backlog':
        return run_backlog(ctx, st)
    evs, _ = scenario_events(ctx, st)
    L = label_of(st)
    if st.get('pre'):
        tabs = sweep.havoc_tables(ctx)
        p = sweep.parser_on(tabs)
        if not ctx.symbolic:
            # concrete run: first find out which part of the pre-state is consulted, then judge the run on real dicts
            # holding exactly those entries
            try:
                for t in p.feed_generator(iter(evs)):
                    str(t)
            except Exception:       # noqa
                pass
            p = sweep.parser_on({n: dict(t.initial) for n, t in tabs.items()})
    else:
        p = _parser(ctx)
    texts = []
    try:
        for t in p.feed_generator(iter(evs)):
            texts.append(str(t))
    except OutOfDomain:
        ctx.reach('ood')
        ctx.reach()
        return
    except Exception as e:      # noqa
        __import__('vxlib.symx.core', fromlist=['x']).proxy_rejected(e)
        ctx.check(L, False, '%s: %s' % (type(e).__name__, _safe(e)))
        ctx.reach()
        return
    ctx.check(L, True)
    ctx.observe('texts', texts)
    ctx.reach()
