"""C02 - a version-2 dump yields exactly its records, in order, and its thread map."""
from oracle import kdebug as K
from vxlib.symx import And, Or, Not, Implies, SymMap
from vxlib.symx.stream import make_stream

PROPERTY = 'C02'
STUBS = ['struct.unpack model (also under construct\'s Int32ul/Int64ul/Byte)', 'SymStream in place of io.BytesIO '
         '(construct itself is executed, including GreedyRange\'s tell/seek fallback)',
         'threads_pids / pids_names replaced by SymMap (association list, key equality decided by the solver)']
ASSUMPTIONS = ['thread names are concrete representatives (the 20-byte name field is handed to io.BytesIO by construct: a C '
               'boundary); lengths 0, 1..7 and 19 are enumerated',
               'the file is written by oracle/kdebug.py:v2_file, the inverse of the layout the parser documents']
OUTSIDE = ['names with non-ASCII bytes', 'thread maps larger than the enumerated n', 'more records than the enumerated m '
           '(the record loop has no state: each iteration is independent of the previous ones)']
EXPLORE_OPTS = {'max_paths': 40000, 'max_seconds': 900}

N19 = 'abcdefghijklmnopqrs'
RAW20 = 'launchd\x00\x00\x00\x00\x00ion_\x00\x00\x00\x00'       # a raw 20-byte command field: the name ends at the first NUL


def setup(symbolic):
    if symbolic:
        from vxlib.symx import shims
        shims.install()


def bounds(tier):
    if tier == 'quick':
        return {'thread map entries n': '0..2 (tids 64-bit, pids 32-bit symbolic; duplicates decided by the solver)',
                'names': 'concrete, lengths 0/1/7/19', 'padding p': '0, 1, 8 zero bytes', 'records m': '0..2, all 64 bytes symbolic',
                'parse sequences': 'one parse; two parses through the same map objects'}
    return {'thread map entries n': '0..3', 'names': 'concrete, lengths 0/1/7/19', 'padding p': '0..16 and 64, 4000',
            'records m': '0..3', 'parse sequences': 'one parse; two parses through the same map objects'}


def structures(tier):
    sts = []
    if tier == 'quick':
        namesets = [[], [''], ['launchd'], [N19], ['a', 'a'], ['', N19], [RAW20]]
        pads = [0, 1, 8]
        ms = [0, 1, 2]
    else:
        namesets = [[], [''], ['x'], ['launchd'], [N19], ['a', 'a'], ['', N19], [RAW20], ['kernel_task', 'launchd'],
                    ['a', 'b', 'a'], [N19, '', 'x']]
        pads = list(range(0, 17)) + [64, 4000]
        ms = [0, 1, 2, 3]
    for names in namesets:
        for p in pads:
            for m in ms:
                if tier == 'thorough' and m == 3 and (p not in (0, 3, 8) or len(names) > 1):
                    continue
                sts.append({'kind': 'single', 'names': names, 'pad': p, 'm': m})
    sts.append({'kind': 'long', 'm': 20000 if tier == 'quick' else 70000, 'pad': 5})
    for n1, n2 in ([(['a'], []), (['a', 'b'], ['c']), ([N19], ['a', 'a']), ([N19], [N19[:16]]), (['abc'], ['ab'])] if tier == 'quick' else
                   [(['a'], []), (['a', 'b'], ['c']), ([N19], ['a', 'a']), ([], ['x']), (['a', 'b', 'c'], ['d', 'e']),
                    ([N19], [N19[:16]]), ([N19], [N19[:17]]), ([N19[:16]], [N19]), (['abc'], ['ab']), (['ab', N19], [N19[:18], 'abc'])]):
        sts.append({'kind': 'reparse', 'names1': n1, 'names2': n2, 'pad': 2, 'm': 1})
    return sts


def weight(st):
    if st['kind'] == 'long':
        return 1000
    return st['m'] * 10 + len(st.get('names', st.get('names2', [])))


def _mk_threads(ctx, names, tag=''):
    return [(ctx.int('%stid%d' % (tag, i)), ctx.int('%spid%d' % (tag, i), 32), nm.encode()) for i, nm in enumerate(names)]


def _parser(ctx):
    from pykdebugparser.pykdebugparser import PyKdebugParser
    p = PyKdebugParser()
    if ctx.symbolic:
        p.threads_pids = SymMap(name='threads_pids')
        p.pids_names = SymMap(name='pids_names')
    return p


def _last_wins(entries, key):
    """value of the last entry whose key equals `key` (None if there is none); equality decided per path"""
    val = None
    found = False
    for k, v in entries:
        if k == key:            # bool(): decided by the path condition, or forked
            val, found = v, True
    return found, val


def _check_tables(ctx, parser, threads, L):
    tp_spec, pn_spec = K.fold_threadmap(threads)
    for tbl, spec, nm in ((parser.threads_pids, tp_spec, 'threads'), (parser.pids_names, pn_spec, 'names')):
        for k, _ in spec:
            found, want = _last_wins(spec, k)
            got = tbl.get(k, None)
            ctx.check('%s/%s/value' % (L, nm), And(got is not None, got == want), 'key %r' % (k,))
        # nothing else: every key of the table is one of the file's keys
        for k in list(tbl.keys()):
            ctx.check('%s/%s/no-leftover' % (L, nm), Or(*[k == kk for kk, _ in spec]) if spec else False,
                      'table holds a key the file does not declare')
        # no duplicates among the table's keys
        ks = list(tbl.keys())
        for i in range(len(ks)):
            for j in range(i):
                ctx.check('%s/%s/distinct-keys' % (L, nm), Not(ks[i] == ks[j]))


def _check_events(ctx, evs, err, records, L):
    m = len(records)
    if err is not None:
        ctx.check(L + '/no-error', False, '%s: %s' % (type(err).__name__, err))
        return
    ctx.check(L + '/no-error', True)
    ctx.check(L + '/count', len(evs) == m, '%d events for %d records' % (len(evs), m))
    for i in range(min(m, len(evs))):
        spec = K.Rec(records[i])
        e = evs[i]
        ctx.check(L + '/event', And(e.timestamp == spec.timestamp, e.data == spec.data, e.tid == spec.tid,
                                    e.debugid == spec.debugid, e.eventid == spec.eventid, e.func_qualifier == spec.func,
                                    *[e.values[k] == spec.args[k] for k in range(4)]), 'event %d is not the decoding of record %d' % (i, i))


def _parse(ctx, parser, data):
    stream = make_stream(data)
    evs, err = [], None
    try:
        for e in parser.kevents(stream):
            evs.append(e)
    except Exception as e:      # noqa - judged by the obligations
        __import__('vxlib.symx.core', fromlist=['x']).proxy_rejected(e)
        err = e
    return evs, err


def run_long(ctx, st):
    """a long dump of concrete pseudo-random records (seeded) with one symbolic record in the middle: the decoding of a
    record does not depend on how many records precede it (block-wise readers, caches)"""
    import random
    rng = random.Random(20260101 + st['m'])
    m = st['m']
    mid = m // 2 + 17
    recs = []
    for i in range(m):
        if i == mid:
            recs.append(None)
        else:
            b = bytearray(rng.getrandbits(8) for _ in range(64))
            if i == 0 and b[0] == 0:
                b[0] = 1
            if i % 9973 == 5:
                b = bytearray(64)           # an all-zero record somewhere inside the dump
            if i % 7919 == 300:
                b[8:40] = bytes(range(32))  # the same argument block again and again, far apart
            recs.append(bytes(b))
    sym = ctx.bytes('rec', 64)
    head = K.v2_file([(0x1d3, 7, b'procA')], st['pad'], recs[:mid])
    tail = b''.join(recs[mid + 1:])
    data = head + sym + tail
    parser = _parser(ctx)
    evs, err = _parse(ctx, parser, data)
    ctx.check('C02/long/no-error', err is None, '%s: %s' % (type(err).__name__, err))
    ctx.check('C02/long/count', len(evs) == m, '%d events for %d records' % (len(evs), m))
    bad = None
    for i in range(min(m, len(evs))):
        if i == mid:
            continue
        spec = K.Rec(recs[i])
        e = evs[i]
        if not (e.timestamp == spec.timestamp and e.tid == spec.tid and e.debugid == spec.debugid and e.data == spec.data):
            bad = i
            break
    ctx.check('C02/long/each-event-is-its-record', bad is None, 'event %s is not the decoding of record %s' % (bad, bad))
    if len(evs) > mid:
        spec = K.Rec(sym)
        e = evs[mid]
        ctx.check('C02/long/symbolic-record', And(e.timestamp == spec.timestamp, e.data == spec.data, e.tid == spec.tid,
                                                  e.debugid == spec.debugid))
    ctx.reach()


def run(ctx, st):
    if st['kind'] == 'reparse':
        return run_reparse(ctx, st)
    if st['kind'] == 'long':
        return run_long(ctx, st)
    threads = _mk_threads(ctx, st['names'])
    records = [ctx.bytes('rec%d' % i, 64) for i in range(st['m'])]
    # the two header fields the parser reads but does not use are free as well
    data = K.v2_file(threads, st['pad'], records, is_64bit=ctx.int('hdr_is64', 32), tick_frequency=ctx.int('hdr_tick'))
    parser = _parser(ctx)
    evs, err = _parse(ctx, parser, data)
    ctx.observe('events', [[e.timestamp, e.tid, e.debugid, e.data] for e in evs])
    ctx.observe('error', type(err).__name__ if err else None)
    lead_zero = bool(records[0][0] == 0) if records else False
    # a first record that begins with 0x00 is indistinguishable from padding for the parser's zero-skipping rule:
    # this region of the input space has its own label (known finding); everything else must hold
    L = 'C02/first-record-leading-zero' if lead_zero else 'C02/events'
    _check_events(ctx, evs, err, records, L)
    _check_tables(ctx, parser, threads, 'C02/map')
    ctx.reach()


def run_reparse(ctx, st):
    t1 = _mk_threads(ctx, st['names1'], 'x')
    t2 = _mk_threads(ctx, st['names2'], 'y')
    r1 = [ctx.bytes('r1_%d' % i, 64) for i in range(st['m'])]
    r2 = [ctx.bytes('r2_%d' % i, 64) for i in range(st['m'])]
    for r in (r1, r2):
        if r:
            ctx.assume(r[0][0] != 0)
    parser = _parser(ctx)
    evs1, err1 = _parse(ctx, parser, K.v2_file(t1, st['pad'], r1))
    _check_events(ctx, evs1, err1, r1, 'C02/reparse/first')
    _check_tables(ctx, parser, t1, 'C02/reparse/first-map')
    evs2, err2 = _parse(ctx, parser, K.v2_file(t2, st['pad'], r2))
    _check_events(ctx, evs2, err2, r2, 'C02/reparse/second')
    _check_tables(ctx, parser, t2, 'C02/reparse/second-map')
    ctx.reach()
