"""C08 - paths and strings split over several records are reassembled exactly, once."""
import itertools
from oracle import kdebug as K
from vxlib import sweep
from vxlib.symx import And, Or, Not, Atom, SymMap, OutOfDomain
from vxlib.symx.values import bytes_items_eq

PROPERTY = 'C08'
STUBS = ['struct.unpack model', 'bytes.replace(NUL)/decode on symbolic bytes (ASCII, non-NUL by precondition): the decoded text '
         'is one atom carrying the byte terms', 'enum forks, atoms, errno SymTable, AST merge rewrites']
ASSUMPTIONS = ['text bytes are non-NUL ASCII (< 0x80) and neither a double quote nor a backslash',
               'records of one thread have strictly increasing (concrete) timestamps',
               'records are chunked as the kernel emitters do (oracle/kdebug.py: chunk_lookup, chunk_string, chunk_simple)']
OUTSIDE = ['non-ASCII / invalid UTF-8 text', 'more than 3 lookups per window', 'posix_spawn\'s six-lookup form']
EXPLORE_OPTS = {'max_paths': 20000, 'max_seconds': 900}
TID = sweep.TID
QUICK_LENS = [0, 1, 23, 24, 25, 55, 56, 57, 88, 89, 184]


def setup(symbolic):
    if symbolic:
        from vxlib.symx import shims, loader
        loader.install()
        shims.install()


def bounds(tier):
    return {'standalone lookups': 'every text length in %s, every byte symbolic, vnode id free 64-bit' % (
        '0..184' if tier == 'thorough' else str(QUICK_LENS)),
        'global strings': 'lengths %s, debug id / string id free' % ('0..120' if tier == 'thorough' else '[0,1,15,16,17,47,48,49,80,81]'),
        'thread names': 'lengths %s (kernel limit 64)' % ('0..64' if tier == 'thorough' else '[0,1,31,32,33,63,64]'),
        'syscalls': 'every decoder that renders a quoted path; 0..3 lookups per window (lengths from {1,24,25,57}), with and '
                    'without an unrelated same-thread record between all records; START/END words free'}


def path_decoders():
    """decoders whose rendering has a quoted parameter (found by rendering an empty window concretely)"""
    out = []
    from pykdebugparser.traces_parser import TracesParser
    by_id, by_name = sweep.codes()
    for n in sweep.decoder_names(('BSC_',)):
        evs = [sweep.make_event(1, [0, 0, 0, 0], TID, by_name[n] | 1), sweep.make_event(2, [0, 0, 0, 0], TID, by_name[n] | 2)]
        lk = sweep.lookup_records(None, 'x', 5, TID, b'p', 1, by_name['VFS_LOOKUP'])
        try:
            p = sweep.new_parser()
            res = [t for t in p.feed_generator(iter([evs[0]] + lk + lk + [evs[1]]))]
            s = str(res[-1])
        except Exception:       # noqa  (enum out of range for zeros etc.: try to recognise by a failing run as well)
            s = ''
        if '"' in s:
            out.append(n)
    return out


def structures(tier):
    sts = []
    lens = range(0, 185) if tier == 'thorough' else QUICK_LENS
    for L in lens:
        sts.append({'kind': 'lookup', 'len': L, 'noise': [False, True, 'fs'][L % 3]})
    for L in (range(0, 121) if tier == 'thorough' else [0, 1, 15, 16, 17, 47, 48, 49, 80, 81]):
        sts.append({'kind': 'gstring', 'len': L})
    for L in (range(0, 65) if tier == 'thorough' else [0, 1, 31, 32, 33, 63, 64]):
        sts.append({'kind': 'tname', 'len': L, 'prev': L % 2 == 0})
    # non-ASCII text cannot be symbolic (the decode model is ASCII): concrete UTF-8 texts whose multi-byte characters
    # straddle every record boundary kind
    for what, bounds_ in (('lookup', (24, 56, 88)), ('gstring', (16, 48)), ('tname', (32,))):
        for b in bounds_:
            for ch in ('\u00e9', '\u20ac', '\U0001f600'):
                n = len(ch.encode())
                for off in range(1, n):
                    sts.append({'kind': 'utf8', 'what': what, 'pre': b - off, 'ch': ch, 'post': 5})
    # two texts one after the other on one parser (a second lookup of a vnode id, a second definition of a string id, a
    # renamed thread): the later one is reassembled from its own records
    for la, lb in ((3, 30), (30, 3), (25, 25), (0, 5)) if tier == 'quick' else ((3, 30), (30, 3), (25, 25), (0, 5), (60, 24), (24, 60), (5, 0)):
        for what in ('lookup', 'gstring', 'tname'):
            sts.append({'kind': 'twice', 'what': what, 'la': la, 'lb': lb})
            if (la, lb) == (3, 30):
                sts.append({'kind': 'twice', 'what': what, 'la': la, 'lb': lb, 'pre': True})     # arbitrary parser tables
    decs = path_decoders()
    for n in decs:
        for k in (0, 1, 2, 3):
            combos = [[1] * k] if tier == 'quick' else [[1] * k, [25, 57, 24][:k]]
            if tier == 'quick' and k == 2:
                combos.append([57, 3])
            for lens_ in combos:
                for noise in ((False, True, 'fs') if (tier == 'thorough' or k == 2) else (False,)):
                    sts.append({'kind': 'syscall', 'name': n, 'lens': lens_, 'noise': noise})
                if k >= 2:
                    sts.append({'kind': 'syscall', 'name': n, 'lens': lens_, 'noise': False, 'same_tick': True})
    return sts


def weight(st):
    return st.get('len', 0) + sum(st.get('lens', [])) * 2


def _text(ctx, name, n):
    t = ctx.bytes(name, n)
    for i in range(n):
        ctx.assume(And(t[i] != 0, t[i] < 0x80, t[i] != 0x22, t[i] != 0x5c))
    return t


def _noise(ts, kind=True):
    """an unrelated same-thread record: a scheduler record, or (kind == 'fs') another file-system class record whose
    payload looks like path text"""
    by_id, by_name = sweep.codes()
    if kind == 'fs':
        return sweep.make_event_data(ts, b'/unrelated/fs/record/payload' + bytes(4), TID, by_name['VFS_LOOKUP_DONE'])
    return sweep.make_event(ts, [1, 2, 3, 4], TID, by_name['MACH_SCHED'])


def _records(chunks, code, ts0, noise):
    evs = []
    ts = ts0
    for q, data in chunks:
        evs.append(('chunk', sweep.make_event_data(ts, data, TID, code | q)))
        ts += 1
        if noise:
            evs.append(('noise', _noise(ts, noise)))
            ts += 1
    return evs, ts


def _text_of(ctx, s):
    """the byte items a rendered text stands for: -> list of items, or None if it is not plain text/one bytes atom"""
    if ctx.symbolic:
        pieces = ctx.template(s) if not isinstance(s, list) else s
        items = []
        for p in pieces:
            if isinstance(p, str):
                items += list(p.encode())
            elif p.kind == 'bytes':
                items += list(p.term)
            else:
                return None
        return items
    return list(s.encode())


def _same_text(ctx, s, text):
    items = _text_of(ctx, s)
    if items is None:
        return False
    return bytes_items_eq(items, list(text.items) if hasattr(text, 'items') else list(text))


def run_twice(ctx, st):
    by_id, by_name = sweep.codes()
    ta, tb = _text(ctx, 'ta', st['la']), _text(ctx, 'tb', st['lb'])
    ka, kb = ctx.int('ka'), ctx.int('kb')         # vnode ids / string ids (may coincide)
    what = st['what']
    if what == 'lookup':
        code = by_name['VFS_LOOKUP']
        ra, ts = _records(K.chunk_lookup(ta, ka), code, 100, False)
        rb, _ = _records(K.chunk_lookup(tb, kb), code, ts + 5, False)
    elif what == 'gstring':
        code = by_name['TRACE_STRING_GLOBAL']
        ctx.assume(And(ka != 0, kb != 0))
        ra, ts = _records(K.chunk_string(ta, 5, ka), code, 100, False)
        rb, _ = _records(K.chunk_string(tb, 5, kb), code, ts + 5, False)
    else:
        code = by_name['TRACE_STRING_THREADNAME']
        ra, ts = _records(K.chunk_simple(ta), code, 100, False)
        rb, _ = _records(K.chunk_simple(tb), code, ts + 5, False)
    if st.get('pre'):
        tabs = sweep.havoc_tables(ctx)
        p = sweep.parser_on(tabs)
        if not ctx.symbolic:
            try:
                for _, ev in ra + rb:
                    p.feed(ev)
            except Exception:       # noqa
                pass
            p = sweep.parser_on({n: dict(t.initial) for n, t in tabs.items()})
    else:
        p = sweep.new_parser()
    first, second = [], []
    try:
        for _, ev in ra:
            r = p.feed(ev)
            if r is not None:
                first.append(r)
        for _, ev in rb:
            r = p.feed(ev)
            if r is not None:
                second.append(r)
    except Exception as e:      # noqa
        __import__('vxlib.symx.core', fromlist=['x']).proxy_rejected(e)
        ctx.check('C08/twice/%s/no-error' % what, False, '%s: %s' % (type(e).__name__, e)); ctx.reach(); return
    L = 'C08/twice/' + what
    ctx.check(L + '/one-trace-each', len(first) == 1 and len(second) == 1, '%d and %d traces' % (len(first), len(second)))
    if len(first) == 1 and len(second) == 1:
        attr = {'lookup': 'path', 'gstring': 'vstr', 'tname': 'name'}[what]
        ctx.check(L + '/first-text', _same_text(ctx, getattr(first[0], attr), ta))
        ctx.check(L + '/second-text', _same_text(ctx, getattr(second[0], attr), tb), 'the later text is not reassembled from its own records')
        if what == 'lookup':
            ctx.check(L + '/second-vnode', second[0].vnode_id == kb)
    if what == 'gstring' and st['lb'] > 0:
        # (an empty later definition is not recorded by the tool - whether it should withdraw the earlier text is not
        # something the property states; only non-empty later definitions are judged)
        got = p.global_strings.get(kb)
        ctx.check(L + '/table-holds-the-later-definition', got is not None and _same_text(ctx, got, tb))
    if what == 'tname' and st['lb'] > 0:
        got = p.tids_names.get(TID)
        ctx.check(L + '/table-holds-the-later-name', got is not None and _same_text(ctx, got, tb))
    ctx.reach()


def run(ctx, st):
    if st['kind'] == 'twice':
        return run_twice(ctx, st)
    return {'lookup': run_lookup, 'gstring': run_gstring, 'tname': run_tname, 'syscall': run_syscall, 'utf8': run_utf8}[st['kind']](ctx, st)


def run_utf8(ctx, st):
    """concrete UTF-8 text with a multi-byte character across a record boundary, through the untouched pipeline"""
    by_id, by_name = sweep.codes()
    text = ('p' * st['pre'] + st['ch'] + 'q' * st['post'])
    raw = text.encode()
    what = st['what']
    if what == 'lookup':
        recs, _ = _records(K.chunk_lookup(raw, 77), by_name['VFS_LOOKUP'], 100, False)
        rd = by_name['BSC_stat64']
        evs = [sweep.make_event(50, [1, 2, 3, 4], TID, rd | 1)] + [e for _, e in recs] + [sweep.make_event(900, [0, 0, 0, 0], TID, rd | 2)]
    elif what == 'gstring':
        recs, _ = _records(K.chunk_string(raw, 5, 9), by_name['TRACE_STRING_GLOBAL'], 100, False)
        evs = [e for _, e in recs]
    else:
        recs, _ = _records(K.chunk_simple(raw), by_name['TRACE_STRING_THREADNAME'], 100, False)
        evs = [e for _, e in recs]
    p = sweep.new_parser()
    try:
        out = list(p.feed_generator(iter(evs)))
    except Exception as e:      # noqa
        __import__('vxlib.symx.core', fromlist=['x']).proxy_rejected(e)
        ctx.check('C08/utf8/%s/no-error' % what, False, '%s: %s' % (type(e).__name__, e)); ctx.reach(); return
    L = 'C08/utf8/' + what
    if what == 'lookup':
        lk = [t for t in out if type(t).__name__ == 'VfsLookup']
        ctx.check(L + '/text', len(lk) == 1 and lk[0].path == text, 'lookup carries %r' % ([t.path for t in lk],))
        sc = [t for t in out if type(t).__name__ != 'VfsLookup']
        ctx.check(L + '/syscall-shows-the-path', len(sc) == 1 and ('"%s"' % text) in str(sc[0]), str(sc[0]) if sc else None)
    elif what == 'gstring':
        ctx.check(L + '/text', len(out) == 1 and out[0].vstr == text and p.global_strings.get(9) == text, repr(out))
    else:
        ctx.check(L + '/text', len(out) == 1 and out[0].name == text and p.tids_names.get(TID) == text, repr(out))
    ctx.reach()



def run_lookup(ctx, st):
    by_id, by_name = sweep.codes()
    text = _text(ctx, 'path', st['len'])
    vnode = ctx.int('vnode')
    recs, _ = _records(K.chunk_lookup(text, vnode), by_name['VFS_LOOKUP'], 100, st['noise'])
    p = sweep.new_parser()
    traces = []
    try:
        for kind, ev in recs:
            r = p.feed(ev)
            if r is not None:
                traces.append((kind, r))
    except Exception as e:      # noqa
        __import__('vxlib.symx.core', fromlist=['x']).proxy_rejected(e)
        ctx.check('C08/lookup/no-error', False, '%s: %s' % (type(e).__name__, e)); ctx.reach(); return
    lk = [r for kind, r in traces if type(r).__name__ == 'VfsLookup']
    ctx.check('C08/lookup-continuation-trace', len(lk) <= 1,
              '%d lookup traces for one %d-byte path (continuation records produced traces of their own)' % (len(lk), st['len']))
    ctx.check('C08/lookup/one-trace', len(lk) >= 1, 'no lookup trace')
    if lk:
        last = lk[-1]
        ctx.observe('path', last.path)
        ctx.check('C08/lookup/text', _same_text(ctx, last.path, text), 'reassembled path differs from the original text')
        ctx.check('C08/lookup/vnode', last.vnode_id == vnode)
        s = str(last)
        ctx.check('C08/lookup/rendered', _same_text(ctx, s.split('"')[1] if not ctx.symbolic else _quoted(ctx, s), text))
    ctx.reach()


def _quoted(ctx, s):
    """pieces between the first pair of double quotes"""
    pieces = ctx.template(s)
    out, inside = [], False
    for p in pieces:
        if isinstance(p, Atom):
            if inside:
                out.append(p)
            continue
        cur = ''
        for ch in p:
            if ch == '"':
                if inside:
                    if cur:
                        out.append(cur)
                    return out
                inside = True
                cur = ''
            elif inside:
                cur += ch
        if inside and cur:
            out.append(cur)
    return out


def run_gstring(ctx, st):
    by_id, by_name = sweep.codes()
    text = _text(ctx, 'str', st['len'])
    debugid, sid = ctx.int('debugid', 32), ctx.int('sid')
    recs, _ = _records(K.chunk_string(text, debugid, sid), by_name['TRACE_STRING_GLOBAL'], 100, False)
    p = sweep.new_parser()
    if ctx.symbolic:
        p.global_strings = SymMap(name='global_strings')
    traces = []
    try:
        for kind, ev in recs:
            r = p.feed(ev)
            if r is not None:
                traces.append(r)
    except Exception as e:      # noqa
        __import__('vxlib.symx.core', fromlist=['x']).proxy_rejected(e)
        ctx.check('C08/gstring/no-error', False, '%s: %s' % (type(e).__name__, e)); ctx.reach(); return
    ctx.check('C08/global-string-continuation', len(traces) <= 1, '%d traces for one %d-byte string' % (len(traces), st['len']))
    ctx.check('C08/gstring/one-trace', len(traces) >= 1)
    if traces:
        t = traces[-1]
        ctx.check('C08/gstring/text', _same_text(ctx, t.vstr, text))
        ctx.check('C08/gstring/ids', And(t.str_id == sid, t.debugid == debugid))
    keys = list(p.global_strings.keys())
    if st['len']:
        ctx.check('C08/gstring/registered-under-own-id-only', And(len(keys) == 1, *[k == sid for k in keys]),
                  '%d ids registered' % len(keys))
        if len(keys) >= 1:
            ctx.check('C08/gstring/registered-text', _same_text(ctx, p.global_strings[keys[-1]], text))
    ctx.reach()


def run_tname(ctx, st):
    by_id, by_name = sweep.codes()
    text = _text(ctx, 'name', st['len'])
    code = by_name['TRACE_STRING_THREADNAME_PREV' if st['prev'] else 'TRACE_STRING_THREADNAME']
    recs, _ = _records(K.chunk_simple(text), code, 100, False)
    p = sweep.new_parser()
    if ctx.symbolic:
        p.tids_names = SymMap(name='tids_names')
    traces = []
    try:
        for kind, ev in recs:
            r = p.feed(ev)
            if r is not None:
                traces.append(r)
    except Exception as e:      # noqa
        __import__('vxlib.symx.core', fromlist=['x']).proxy_rejected(e)
        ctx.check('C08/tname/no-error', False, '%s: %s' % (type(e).__name__, e)); ctx.reach(); return
    ctx.check('C08/tname/one-trace', len(traces) == 1, '%d traces for one thread name' % len(traces))
    if traces:
        ctx.check('C08/tname/text', _same_text(ctx, traces[-1].name, text))
        ctx.check('C08/tname/learned', _same_text(ctx, p.tids_names.get(TID, ''), text))
    ctx.reach()


def run_syscall(ctx, st):
    by_id, by_name = sweep.codes()
    name = st['name']
    a = [ctx.int('a%d' % i) for i in range(4)]
    r = [ctx.int('r%d' % i) for i in range(4)]
    texts = [_text(ctx, 'path%d' % i, L) for i, L in enumerate(st['lens'])]
    evs = [('start', sweep.make_event(10, a, TID, by_name[name] | 1))]
    ts = 11
    if st['noise']:
        evs.append(('noise', _noise(ts, st['noise']))); ts += 1
    for i, t in enumerate(texts):
        recs, ts = _records(K.chunk_lookup(t, ctx.int('vnode%d' % i)), by_name['VFS_LOOKUP'], ts, st['noise'])
        evs += recs
    if st.get('same_tick'):
        # all lookup records written in the same timer tick (timestamps are not unique)
        evs = [(k, e._replace(timestamp=11) if k == 'chunk' else e) for k, e in evs]
    evs.append(('end', sweep.make_event(ts + 1, r, TID, by_name[name] | 2)))
    p = sweep.new_parser()
    out = []
    try:
        for kind, ev in evs:
            t = p.feed(ev)
            if t is not None:
                out.append(t)
        sc = [t for t in out if t.ktraces[0] is evs[0][1]]
        s = str(sc[-1]) if sc else None
    except OutOfDomain:
        ctx.reach('ood'); ctx.reach(); return
    except Exception as e:      # noqa: a decoder that cannot cope with this number of lookups is C07's subject
        __import__('vxlib.symx.core', fromlist=['x']).proxy_rejected(e)
        ctx.reach('exc:' + type(e).__name__); ctx.reach(); return
    L = 'C08/%s' % name
    lk = [t for t in out if type(t).__name__ == 'VfsLookup']
    ctx.check('C08/lookup-continuation-trace' if len(lk) > len(texts) else L + '/one-lookup-trace-per-lookup',
              len(lk) == len(texts), '%d lookup traces for %d lookups' % (len(lk), len(texts)))
    for t, text in zip([x for x in lk if x.ktraces and x.ktraces[-1].func_qualifier & 2 or len(lk) == len(texts)], texts):
        pass
    if s is None:
        ctx.check(L + '/trace', False, 'no syscall trace'); ctx.reach(); return
    ctx.observe('text', s)
    cs = sweep.split_call(ctx.template(s))
    shown = []
    for par in cs.params:
        lits = ''.join(x for x in par if isinstance(x, str))
        if lits.startswith('"') and lits.endswith('"') and lits.count('"') == 2:
            inner = []
            for x in par:
                if isinstance(x, str):
                    x = x.strip('"') if x in ('"', '""') else x.lstrip('"') if x is par[0] else x.rstrip('"') if x is par[-1] else x
                    if x:
                        inner.append(x)
                else:
                    inner.append(x)
            shown.append(inner)
    items = [_text_of(ctx, q) if ctx.symbolic else list(''.join(q).encode()) for q in shown]
    if any(i is None for i in items):
        ctx.check(L + '/path-params-are-text', False); ctx.reach(); return
    nonempty = [i for i in items if len(i)]
    tl = [list(t.items) if hasattr(t, 'items') else list(t) for t in texts]
    if len(texts) == len(shown):
        for j, (q, t) in enumerate(zip(items, tl)):
            ctx.check('%s/path%d' % (L, j), bytes_items_eq(q, t), 'path parameter %d is not lookup %d' % (j, j))
    # in any case: the non-empty paths shown are lookups of this window, in lookup order
    conds = []
    for idx in itertools.combinations(range(len(tl)), len(nonempty)):
        conds.append(And(*[bytes_items_eq(q, tl[i]) for q, i in zip(nonempty, idx)]))
    ctx.check(L + '/paths-in-lookup-order', Or(*conds) if conds else len(nonempty) == 0,
              '%d non-empty paths shown for %d lookups' % (len(nonempty), len(tl)))
    ctx.reach()
