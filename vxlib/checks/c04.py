"""C04 - START/END pairing delivers exactly each operation's per-thread event window."""
from oracle import kdebug as K
from oracle import pairing as P
from vxlib import sweep
from vxlib.symx import And, Or, Not, SymMap

PROPERTY = 'C04'
STUBS = ['struct.unpack model', 'thread ids are free 64-bit values; the real dicts keyed by thread id resolve keys by solver-decided '
         'equality (collide-hash policy: every symbolic int hashes alike, so dict lookup falls back to ==; sound because '
         'every key of those dicts is a symbolic thread id)', 'SymMap for the parser\'s shared lookup tables']
ASSUMPTIONS = ['codes are concrete per structure: A,B = decodable ordinary (BSC_getpid, BSC_getppid), S = decodable trace-domain '
               '(TRACE_DATA_EXEC), K = in the table but undecoded (proc_exit), P = class-7 name outside the trace domain '
               '(TRACE_PANIC), U = id not in the table',
               'window membership is compared by object identity of the events']
OUTSIDE = ['histories longer than the bounds; by the one-step formulation the window claim extends to any history that '
           'reaches a pre-state of the enumerated shapes (induction argued in DESIGN.md, not solver-checked)']
EXPLORE_OPTS = {'max_paths': 100000, 'max_seconds': 900, 'hash_collide': True}
CODES = {'A': 'BSC_getpid', 'B': 'BSC_getppid', 'S': 'TRACE_DATA_EXEC', 'K': 'proc_exit', 'P': 'TRACE_PANIC', 'U': None,
         'T': 'TRACE_DATA_THREAD_TERMINATE'}
UNKNOWN_ID = 0x0badc0d0


def setup(symbolic):
    if symbolic:
        from vxlib.symx import shims, loader
        loader.install()
        shims.install()


def bounds(tier):
    if tier == 'quick':
        return {'histories': 'all sequences of length <= 3 over codes {A,S,K,U} (+P up to length 2) x 4 qualifiers, and all '
                             'START/END sequences of length 4 and 5 over one code, thread ids free 64-bit '
                             '(every equality pattern), payload words and timestamps free',
                'one-step': 'pre-states built from per-thread sequences of <= 2 events on <= 2 threads, then one event of any '
                            'code/qualifier with a free thread id; post-state compared with the specification'}
    return {'histories': 'length <= 3 over {A,B,S,K,P,U} x 4 qualifiers; length 4 over {A,S} x 4 and over {A,B} x {START,END}; '
                         'length 5 over {A} x 4 qualifiers', 'one-step': 'pre-state sequences of <= 3 events on <= 2 threads'}


def structures(tier):
    import itertools
    sts = []
    quals = [0, 1, 2, 3]

    def hist(alpha, n, qs=quals):
        letters = [(c, q) for c in alpha for q in qs]
        for h in itertools.product(letters, repeat=n):
            sts.append({'kind': 'history', 'h': [list(x) for x in h]})
    if tier == 'quick':
        for n in (1, 2, 3):
            hist('ASKPU' if n < 3 else 'ASK', n)
        hist('A', 4, [1, 2])
        hist('A', 5, [1, 2])
        hist('AP', 3, [0, 1, 2])
        hist('AT', 3, [0, 1, 2])          # T's payload word names a thread id (free: may equal another event's thread)
        sts.append({'kind': 'long', 'n': 60000})
        pre_alpha, pre_len = 'AS', 2
    else:
        for n in (1, 2, 3):
            hist('ABSKPU' if n < 3 else 'ABSKU', n)
        hist('AS', 4)
        hist('AB', 4, [1, 2])
        hist('A', 5)
        hist('AST', 3)
        sts.append({'kind': 'long', 'n': 200000})
        pre_alpha, pre_len = 'ASK', 3
    # one-step: per-thread sequences that start with a START (so that something is open), for 1 or 2 threads
    letters = [(c, q) for c in pre_alpha for q in quals]
    seqs = []
    for n in range(1, pre_len + 1):
        for h in itertools.product(letters, repeat=n):
            if h[0][1] == 1:
                seqs.append([list(x) for x in h])
    step_letters = [(c, q) for c in ('ASKPU' if tier == 'quick' else 'ABSKPU') for q in quals]
    for s1 in seqs:
        for e in step_letters:
            sts.append({'kind': 'step', 'pre': [s1], 'e': list(e)})
    short = [s for s in seqs if len(s) <= (1 if tier == 'quick' else 2)]
    for s1 in short:
        for s2 in short:
            for e in step_letters:
                sts.append({'kind': 'step', 'pre': [s1, s2], 'e': list(e)})
    return sts


def weight(st):
    return len(st.get('h', [])) + sum(len(s) for s in st.get('pre', []))


def _mk(ctx, i, code, qual, tid):
    by_id, by_name = sweep.codes()
    name = CODES[code]
    eid = by_name[name] if name else UNKNOWN_ID
    words = [ctx.int('w%d_%d' % (i, j)) for j in range(4)]
    ts = ctx.int('ts%d' % i)
    obj = sweep.make_event(ts, words, tid, eid | qual)
    from pykdebugparser.traces_parser import TracesParser
    return P.Ev(obj, tid, eid, qual, name, name is not None and name in _decodable())


_dec = []


def _decodable():
    if not _dec:
        _dec.append({'BSC_getpid', 'BSC_getppid', 'TRACE_DATA_EXEC', 'TRACE_DATA_THREAD_TERMINATE'})
    return _dec[0]


def _parser(ctx):
    from pykdebugparser.traces_parser import TracesParser
    by_id, _ = sweep.codes()
    return TracesParser(by_id, SymMap() if ctx.symbolic else {}, SymMap() if ctx.symbolic else {})


def _ids(evs):
    return [id(e.obj) for e in evs]


def _compare_emission(ctx, L, ret, emitted, history_evs):
    strays = {id(e.obj) for e in history_evs if getattr(e, 'stray', False)}
    if emitted is None:
        ctx.check(L + '/nothing-emitted', ret is None, 'a trace was emitted where none is due: %r' % (type(ret).__name__,))
        return
    ctx.check(L + '/trace-emitted', ret is not None, 'no trace for a closing END / single event of a decodable code')
    if ret is None:
        return
    got = [id(x) for x in ret.ktraces if id(x) not in strays]
    want = [i for i in _ids(emitted) if i not in strays]
    ctx.check(L + '/window', got == want, 'window has %d events, specification %d' % (len(got), len(want)))
    known = {id(e.obj) for e in history_evs}
    ctx.check(L + '/window-only-stream-events', all(id(x) in known for x in ret.ktraces))
    ctx.check(L + '/window-no-duplicates', len({id(x) for x in ret.ktraces}) == len(ret.ktraces))


def run(ctx, st):
    if st['kind'] == 'history':
        return run_history(ctx, st)
    if st['kind'] == 'long':
        return run_long(ctx, st)
    return run_step(ctx, st)


def run_long(ctx, st):
    """a long concrete (seeded) history on three threads against the same specification: state that only builds up over
    thousands of records (per-thread backlogs, caches); one event in the middle carries symbolic payload"""
    import random
    from pykdebugparser.kevent import Kevent
    by_id, by_name = sweep.codes()
    rng = random.Random(4242 + st['n'])
    tids = [0x101, 0x202, 0x303]
    letters = 'AAASKUP'
    p = _parser(ctx)
    state = []
    evs = []
    mid = st['n'] // 2
    mismatch = None
    for i in range(st['n']):
        c = rng.choice(letters)
        # START-heavy on thread 0 so that unmatched STARTs pile up
        q = rng.choice([1, 1, 1, 2, 0, 3]) if rng.random() < 0.5 else rng.choice([1, 2, 2, 0])
        tid = tids[0] if rng.random() < 0.6 else rng.choice(tids[1:])
        if i == 0 or i == st['n'] - 1:
            # one operation stays open on thread 0 for the whole history: its window is every record of the thread
            c, q, tid = 'B', (1 if i == 0 else 2), tids[0]
        name = CODES[c]
        eid = by_name[name] if name else UNKNOWN_ID
        if i == mid:
            e = _mk(ctx, 0, 'A', 2, tid)
        else:
            w = (i, i + 1, i + 2, i + 3)
            obj = Kevent(i, b''.join(x.to_bytes(8, 'little') for x in w), w, tid, eid | q, eid, q)
            e = P.Ev(obj, tid, eid, q, name, name is not None and name in _decodable())
        evs.append(e)
        try:
            ret = p.feed(e.obj)
        except Exception as ex:     # noqa
            __import__('vxlib.symx.core', fromlist=['x']).proxy_rejected(ex)
            ctx.check('C04/long/no-error', False, 'event %d: %s: %s' % (i, type(ex).__name__, ex))
            ctx.reach()
            return
        state, emitted = P.step(state, e)
        if mismatch is None:
            if emitted is None:
                if ret is not None:
                    mismatch = (i, 'a trace where none is due')
            elif ret is None:
                mismatch = (i, 'no trace for a closing END / single event')
            else:
                strays = {id(x.obj) for x in emitted if getattr(x, 'stray', False)}
                if [id(x) for x in ret.ktraces if id(x) not in strays] != [id(x.obj) for x in emitted if id(x.obj) not in strays]:
                    mismatch = (i, 'window differs (%d vs %d events)' % (len(ret.ktraces), len(emitted)))
        # keep the specification state bounded like any real consumer would not: windows of never-closed STARTs grow
    ctx.check('C04/long/matches-specification', mismatch is None, 'first difference at event %s: %s' % (mismatch or (None, None)))
    ctx.reach()


def run_history(ctx, st):
    evs = []
    for i, (c, q) in enumerate(st['h']):
        evs.append(_mk(ctx, i, c, q, ctx.int('tid%d' % i)))
    p = _parser(ctx)
    state = []
    for i, e in enumerate(evs):
        try:
            ret = p.feed(e.obj)
        except Exception as ex:     # noqa
            __import__('vxlib.symx.core', fromlist=['x']).proxy_rejected(ex)
            ctx.check('C04/history/no-error', False, '%s: %s' % (type(ex).__name__, ex))
            ctx.reach()
            return
        state, emitted = P.step(state, e)
        _compare_emission(ctx, 'C04/history', ret, emitted, evs[:i + 1])
    ctx.reach()


def _tables_of(p):
    return {'event': p.on_going_events, 'trace': p.on_going_traces}


def _install(p, state):
    """write the specification state into the parser's two window tables (real dicts)"""
    for w in state:
        tbl = _tables_of(p)[w['domain']]
        if w['tid'] not in tbl:
            tbl[w['tid']] = {}
        tbl[w['tid']][w['code']] = [e.obj for e in w['events']]


def _check_state(ctx, L, p, state):
    """the parser's tables hold exactly the specification's windows (thread entries without windows are allowed)"""
    for dom, tbl in _tables_of(p).items():
        seen = 0
        for tid, wins in list(tbl.items()):
            for code, lst in wins.items():
                seen += 1
                match = [w for w in state if w['domain'] == dom and w['code'] == code and P.same(w['tid'], tid)]
                ctx.check(L + '/no-extra-window', len(match) == 1, 'table %s holds a window the specification does not' % dom)
                if len(match) == 1:
                    ctx.check(L + '/window-content', [id(x) for x in lst] == _ids(match[0]['events']),
                              'open window of code %#x differs from the specification' % code)
        ctx.check(L + '/all-windows-present', seen == len([w for w in state if w['domain'] == dom]),
                  'table %s: %d windows, specification %d' % (dom, seen, len([w for w in state if w['domain'] == dom])))


_plain = []


def _plain_tables():
    """does the parser keep its open windows as tid -> code -> list of events in `on_going_events` / `on_going_traces`?  The
    one-step harness writes its pre-state into those tables; if the representation is another one (a refactoring), the step
    is decided by feeding the prefix through the public `feed` instead, and the post-state obligation is not claimed."""
    if not _plain:
        ok = True
        try:
            from pykdebugparser.kevent import Kevent
            from pykdebugparser.traces_parser import TracesParser
            by_id, by_name = sweep.codes()
            q = TracesParser(by_id, {}, {})
            for c in 'AS':
                eid = by_name[CODES[c]]
                q.feed(Kevent(1, bytes(32), (0, 0, 0, 0), 0x77, eid | 1, eid, 1))
            for t in _tables_of(q).values():
                ok = ok and isinstance(t, dict) and all(isinstance(w, dict) and all(type(l) is list for l in w.values())
                                                        for w in t.values())
            ok = ok and sum(len(w) for t in _tables_of(q).values() for w in t.values()) == 2
        except Exception:   # noqa
            ok = False
        _plain.append(ok)
    return _plain[0]


def run_step(ctx, st):
    # pre-state: each thread's sequence is folded by the specification (never fed to the parser), then installed
    state = []
    all_evs = []
    tids = [ctx.int('ptid%d' % k) for k in range(len(st['pre']))]
    if len(tids) == 2:
        ctx.assume(tids[0] != tids[1])
    n = 0
    for k, seq in enumerate(st['pre']):
        for (c, q) in seq:
            e = _mk(ctx, n, c, q, tids[k]); n += 1
            all_evs.append(e)
            state, _ = P.step(state, e)
    p = _parser(ctx)
    plain = _plain_tables()
    if plain:
        _install(p, state)
    else:
        ctx.note('C04/step', 'pairing state is not tid -> code -> list: prefix fed through feed(), post-state not claimed')
        for pe in all_evs:
            try:
                p.feed(pe.obj)
            except Exception as ex:     # noqa
                __import__('vxlib.symx.core', fromlist=['x']).proxy_rejected(ex)
                ctx.check('C04/step/no-error', False, 'prefix: %s: %s' % (type(ex).__name__, ex))
                ctx.reach()
                return
    e = _mk(ctx, n, st['e'][0], st['e'][1], ctx.int('tid'))
    all_evs.append(e)
    try:
        ret = p.feed(e.obj)
    except Exception as ex:     # noqa
        __import__('vxlib.symx.core', fromlist=['x']).proxy_rejected(ex)
        ctx.check('C04/step/no-error', False, '%s: %s' % (type(ex).__name__, ex))
        ctx.reach()
        return
    before = P.copy_state(state)
    state2, emitted = P.step(P.copy_state(state), e)
    _compare_emission(ctx, 'C04/step', ret, emitted, all_evs)
    if plain:
        _check_state(ctx, 'C04/step/post-state', p, state2)
    ctx.reach()
