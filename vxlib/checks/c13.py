"""C13 - trace filters commute with decoding and leave no residue in the parser."""
from oracle import kdebug as K
from vxlib import sweep
from vxlib.symx import And, Or, Not, SymMap
from vxlib.symx.stream import make_stream

PROPERTY = 'C13'
STUBS = ['struct.unpack model', 'SymStream', 'atoms', 'enum forks', 'errno SymTable', 'AST merge rewrites']
ASSUMPTIONS = ['the stream is a fixed skeleton of two threads of two processes (concrete event ids, thread ids and timestamps; '
               'START argument words, return words, the lookup text and the thread name symbolic; error words zero)',
               'process tables come from the thread map only (no map-updating records in the skeleton)']
OUTSIDE = ['streams other than the skeleton', 'filter lists longer than 2 entries']
EXPLORE_OPTS = {'max_paths': 60000, 'max_seconds': 900}
T1, T2, P1, P2 = 0x1d3, 0x2e4, 77, 88
T3, P3 = 0x3f5, 99            # a thread the thread map does not list: announced in mid-stream by a record of thread T1
T4, P4 = 0x4a6, 55            # another one, announced by a sampler thread-info record (class 0x25) logged by thread T2
THREADS = [(T1, P1, b'procA'), (T2, P2, b'procB')]
DBG_MACH, DBG_FSYSTEM, DBG_BSD, DBG_TRACE, DBG_PERF, DBG_DYLD = 1, 3, 4, 7, 0x25, 0x1f


def setup(symbolic):
    if symbolic:
        from vxlib.symx import shims, loader
        loader.install()
        shims.install()


def bounds(tier):
    return {'stream': 'skeleton of 20 records (an orphan END first, an exec that renames one process in mid-stream, a never-ending START last): per thread an open() window with one lookup, a read() window, a thread-name '
                      'string and a Mach trap; plus a sampler window before and after an image announcement',
            'filters': 'filter_tid None or free 64-bit; filter_process None / name / pid text / unknown; class list 0..2 entries '
                       'free 8-bit; BSD-subclass list 0..1 entries (0x40c or any other 0x04xx); class values sharded over {1,3,4,7,other}',
            'request sequences': 'traces;traces  traces;kevents  callstacks;callstacks  traces;callstacks'}


def structures(tier):
    sts = []
    for tidf in (False, True):
        for proc in (None, 'procA', str(P2), 'nosuch', 'procB', 'execd'):
            sts.append({'kind': 'select', 'tid': tidf, 'proc': proc, 'nc': 0, 'ns': 0})
    sts.append({'kind': 'select', 'tid': False, 'proc': 'procB', 'nc': 1, 'ns': 0, 'c': [4]})
    sts.append({'kind': 'select', 'tid': False, 'proc': str(P3), 'nc': 0, 'ns': 0})
    sts.append({'kind': 'select', 'tid': False, 'proc': str(P4), 'nc': 0, 'ns': 0})
    sts.append({'kind': 'select', 'tid': True, 'proc': str(P4), 'nc': 0, 'ns': 0})
    sts.append({'kind': 'select', 'tid': True, 'proc': str(P4), 'nc': 1, 'ns': 0, 'c': [4]})
    for proc in ('0', 'kernel_task', '-1', ''):
        sts.append({'kind': 'select', 'tid': False, 'proc': proc, 'nc': 0, 'ns': 0, 'pid0': True})
    sts.append({'kind': 'select', 'tid': True, 'proc': str(P3), 'nc': 1, 'ns': 0, 'c': [4]})
    sts.append({'kind': 'select', 'tid': True, 'proc': None, 'nc': 1, 'ns': 0, 'c': [7]})
    for seq in ('traces;traces', 'traces;callstacks'):
        sts.append({'kind': 'sequence', 'seq': seq, 'classes': [], 'proc': str(P3)})
        sts.append({'kind': 'sequence', 'seq': seq, 'classes': [4], 'proc': 'execd'})
    sts.append({'kind': 'select', 'tid': False, 'proc': 'execd', 'nc': 1, 'ns': 0, 'c': [1]})
    shards = [1, 3, 4, 7, None]
    for c0 in shards:
        sts.append({'kind': 'select', 'tid': False, 'proc': None, 'nc': 1, 'ns': 0, 'c': [c0]})
        sts.append({'kind': 'select', 'tid': True, 'proc': 'procA', 'nc': 1, 'ns': 0, 'c': [c0]})
        for c1 in shards:
            if tier == 'thorough' or (c0, c1) in ((4, 1), (1, 7), (3, None), (7, 3), (None, None), (4, 4)):
                sts.append({'kind': 'select', 'tid': False, 'proc': None, 'nc': 2, 'ns': 0, 'c': [c0, c1]})
    # BSD subclasses (0x40c or any other 0x04xx) and the subclasses of the two helper classes when requested themselves
    sts.append({'kind': 'select', 'tid': False, 'proc': None, 'nc': 0, 'ns': 2, 's': [0x40c, 0x301]})
    sts.append({'kind': 'select', 'tid': False, 'proc': None, 'nc': 1, 'ns': 1, 's': [0x701], 'c': [4]})
    for c0 in (4, 1, 0x1f):
        for helper in (3, 7):
            sts.append({'kind': 'select', 'tid': False, 'proc': None, 'nc': 1, 'ns': 1, 'c': [c0], 'shelper': helper})
    for s0 in (0x40c, 0x301, 0x701, None):
        sts.append({'kind': 'select', 'tid': False, 'proc': None, 'nc': 0, 'ns': 1, 's': [s0]})
        sts.append({'kind': 'select', 'tid': False, 'proc': None, 'nc': 1, 'ns': 1, 's': [s0], 'c': [1]})
    for seq in ('traces;traces', 'traces;kevents', 'callstacks;callstacks', 'traces;callstacks'):
        for c in ([], [4], [1], [4, 7], [0x25, 0x1f]):
            sts.append({'kind': 'sequence', 'seq': seq, 'classes': c})
    return sts


def weight(st):
    return st.get('nc', 0) * 3 + st.get('ns', 0) * 2 + 1


_EXEC_TS = [0]
_NT_TS = [0]
_TD_TS = [0]


def skeleton(ctx):
    """-> list of 64-byte records"""
    _, bn = sweep.codes()
    recs = []
    ts = [1000]

    def ev(name, qual, tid, words=None, data=None):
        ts[0] += 1
        if data is not None:
            recs.append(K.pack_rec_data(ts[0], data, tid, bn[name] | qual))
        else:
            w = words if words is not None else [ctx.int('w%d_%d' % (len(recs), j)) for j in range(4)]
            recs.append(K.pack_rec(ts[0], w, tid, bn[name] | qual))
    path = ctx.bytes('path', 3)
    tname = ctx.bytes('tname', 3)
    for t in (path, tname):
        for i in range(3):
            ctx.assume(And(t[i] != 0, t[i] < 0x80, t[i] != 0x22, t[i] != 0x5c))
    # sampler before any image announcement (T1), image announcement, sampler after (T1)
    def sample(tid, tag):
        ev('PERF_Event', 1, tid, [0x8, 5, 0, 0])
        ev('PERF_STK_UHdr', 0, tid, [1, 1, 0, 0])
        ev('PERF_STK_UData', 0, tid, [ctx.int('frame' + tag), 0, 0, 0])
        ev('PERF_Event', 2, tid, [0x8, 0, 0, 0])
    ev('BSC_read', 2, T2, [0, ctx.int('orphan'), 0, 0])          # an END whose START precedes the dump
    ev('BSC_getpid', 1, T3, [0, 0, 0, 0])                        # a thread nobody declared yet
    ev('BSC_getpid', 2, T3, [0, ctx.int('pid3a'), 0, 0])
    ev('BSC_getpid', 1, T4, [0, 0, 0, 0])
    ev('BSC_getpid', 2, T4, [0, ctx.int('pid4a'), 0, 0])
    sample(T1, 'a')
    ev('DYLD_uuid_map_a', 0, T2, data=bytes(range(1, 17)) + K.to_le(ctx.int('img'), 8) + bytes(8))
    for tid, tag in ((T1, 'x'), (T2, 'y')):
        ev('BSC_open', 1, tid)
        ev('VFS_LOOKUP', 3, tid, data=K.to_le(ctx.int('vn' + tag), 8) + path + bytes(21))
        ev('BSC_open', 2, tid, [0, ctx.int('fd' + tag), 0, 0])
    ev('BSC_read', 1, T1)
    ev('TRACE_DATA_NEWTHREAD', 0, T1, [T3, P3, 0, 0])            # T1 announces thread T3 of process P3
    _NT_TS[0] = ts[0]
    ev('BSC_getpid', 1, T3, [0, 0, 0, 0])
    ev('BSC_getpid', 2, T3, [0, ctx.int('pid3b'), 0, 0])
    ev('PERF_THD_Data', 0, T2, [P4, T4, 0, 0])                   # T2 logs thread info about thread T4 of process P4
    _TD_TS[0] = ts[0]
    ev('BSC_getpid', 1, T4, [0, 0, 0, 0])
    ev('BSC_getpid', 2, T4, [0, ctx.int('pid4b'), 0, 0])
    # process P2 execs: its name changes in mid-stream
    ev('TRACE_DATA_EXEC', 0, T2, [P2, 0, 0, 0])
    ev('TRACE_STRING_EXEC', 0, T2, data=b'execd' + bytes(27))
    _EXEC_TS[0] = ts[0]
    ev('TRACE_STRING_THREADNAME', 3, T2, data=tname + bytes(29))
    ev('MSC_mach_vm_allocate_trap', 1, T2)
    ev('BSC_read', 2, T1, [0, ctx.int('count'), 0, 0])
    ev('MSC_mach_vm_allocate_trap', 2, T2)
    sample(T1, 'b')
    ev('BSC_read', 1, T2)                                          # a START that never ends
    return recs


def _parser(ctx):
    from pykdebugparser.pykdebugparser import PyKdebugParser
    p = PyKdebugParser()
    p.color = False
    if ctx.symbolic:
        p.threads_pids, p.pids_names = SymMap(), SymMap()
    return p


def _run(ctx, p, data, what):
    out = []
    for x in getattr(p, what)(make_stream(data)):
        out.append(x)
    return out


def _key(t):
    e = t.ktraces[0]
    return (e.timestamp, e.tid, e.debugid)


def _text_eq(ctx, a, b):
    if ctx.symbolic:
        return sweep.pieces_equal(ctx.template(a), ctx.template(b))
    return a == b


def run(ctx, st):
    recs = skeleton(ctx)
    # pid0: the first thread belongs to pid 0 (kernel_task) - a pid that is falsy
    threads = [(T1, 0, b'kernel_task'), (T2, P2, b'procB')] if st.get('pid0') else THREADS
    data = K.v2_file(threads, 0, recs)
    if st['kind'] == 'sequence':
        return run_sequence(ctx, st, data)
    # unfiltered reference
    ref = _run(ctx, _parser(ctx), data, 'traces')
    reft = [(t, str(t)) for t in ref]
    p = _parser(ctx)
    ftid = ctx.int('ftid') if st['tid'] else None
    classes = []
    for i in range(st['nc']):
        c = ctx.int('c%d' % i, 8)
        v = st.get('c', [None] * st['nc'])[i]
        if v is not None:
            ctx.assume(c == v)
        else:
            ctx.assume(And(c != 1, c != 3, c != 4, c != 7))
        classes.append(c)
    subclasses = []
    for i in range(st['ns']):
        s = ctx.int('s%d' % i, 16)
        v = (st.get('s') or [None] * st['ns'])[i]
        if st.get('shelper') is not None:
            ctx.assume((s >> 8) == st['shelper'])           # any subclass of a helper class
        elif v is not None:
            ctx.assume(s == v)
        else:
            ctx.assume(And((s >> 8) == DBG_BSD, s != 0x40c))
        subclasses.append(s)
    p.filter_tid = ftid
    p.filter_process = st['proc']
    orig_c, orig_s = list(classes), list(subclasses)
    p.filter_class, p.filter_subclass = classes, subclasses
    try:
        got = _run(ctx, p, data, 'traces')
    except Exception as e:      # noqa
        __import__('vxlib.symx.core', fromlist=['x']).proxy_rejected(e)
        ctx.check('C13/no-error', False, '%s: %s' % (type(e).__name__, e)); ctx.reach(); return
    pmap = {T1: (P1, 'procA'), T2: (P2, 'procB'), T3: (P3, ''), T4: (P4, '')}
    if st.get('pid0'):
        pmap[T1] = (0, 'kernel_task')

    def pred(t):
        e = t.ktraces[0]
        ok = True
        if ftid is not None:
            ok = And(ok, e.tid == ftid)
        if st['proc'] is not None:
            pid, nm = pmap[e.tid]
            if e.tid == T2 and t.ktraces[-1].timestamp >= _EXEC_TS[0]:
                nm = 'execd'          # the process the dump declares for the thread at that point of the stream
            if e.tid == T3 and t.ktraces[-1].timestamp < _NT_TS[0]:
                pid, nm = -1, ''      # not declared yet
            if e.tid == T4 and t.ktraces[-1].timestamp < _TD_TS[0]:
                pid, nm = -1, ''
            ok = And(ok, st['proc'] in (str(pid), nm))
        if orig_c or orig_s:
            ok = And(ok, Or(*([(e.eventid >> 24) == c for c in orig_c] + [(e.eventid >> 16) == s for s in orig_s])))
        return ok
    exp = [(t, s) for t, s in reft if bool(pred(t))]
    ctx.observe('n', [len(reft), len(exp), len(got)])
    ctx.check('C13/selected-count', len(got) == len(exp), '%d traces reported, %d of the unfiltered run satisfy the filter' % (len(got), len(exp)))
    for g, (t, s) in zip(got, exp):
        ctx.check('C13/same-trace', _key(g) == _key(t) and type(g) is type(t), '%s vs %s' % (type(g).__name__, type(t).__name__))
        ctx.check('C13/same-text', _text_eq(ctx, str(g), s), type(t).__name__)
    ctx.check('C13/filter-class-mutated', And(len(p.filter_class) == len(orig_c), *[a == b for a, b in zip(p.filter_class, orig_c)]),
              'filter_class has %d entries after the request, the caller set %d' % (len(p.filter_class), len(orig_c)))
    ctx.check('C13/filter-subclass-mutated', len(p.filter_subclass) == len(orig_s))
    ctx.check('C13/caller-list-untouched', len(classes) == len(orig_c), 'the list object the caller passed was modified')
    ctx.reach()


def run_sequence(ctx, st, data):
    p = _parser(ctx)
    p.filter_class = list(st['classes'])
    p.filter_process = st.get('proc')
    first, second = st['seq'].split(';')
    try:
        a = _run(ctx, p, data, first)
        b = _run(ctx, p, data, second)
        fresh = _parser(ctx)
        fresh.filter_class = list(st['classes'])
        fresh.filter_process = st.get('proc')
        b_ref = _run(ctx, fresh, data, second)
    except Exception as e:      # noqa
        __import__('vxlib.symx.core', fromlist=['x']).proxy_rejected(e)
        ctx.check('C13/sequence/no-error', False, '%s: %s' % (type(e).__name__, e)); ctx.reach(); return
    L = 'C13/second-call-differs/' + st['seq'].replace(';', '-then-')
    ctx.check(L, len(b) == len(b_ref), 'second request returns %d items, a fresh parser %d' % (len(b), len(b_ref)))
    for x, y in zip(b, b_ref):
        ctx.check(L, _same_item(ctx, x, y))
    ctx.check('C13/filter-class-mutated', len(p.filter_class) == len(st['classes']),
              'filter_class %r after the requests, the caller set %r' % (list(p.filter_class), st['classes']))
    ctx.reach()


def _same_item(ctx, x, y):
    from pykdebugparser.kevent import Kevent
    if type(x) is not type(y):
        return False
    if isinstance(x, Kevent):
        return And(x.timestamp == y.timestamp, x.tid == y.tid, x.debugid == y.debugid, x.data == y.data)
    if type(x).__name__ == 'Callstack':
        if len(x.frames) != len(y.frames):
            return False
        return And(x.timestamp == y.timestamp, x.tid == y.tid,
                   *[And(f.address == g.address, (f.uuid is None) == (g.uuid is None), f.uuid == g.uuid if f.uuid is not None else True,
                         (f.offset == g.offset) if f.offset is not None and g.offset is not None else (f.offset is g.offset))
                     for f, g in zip(x.frames, y.frames)])
    return And(_key(x) == _key(y), _text_eq(ctx, str(x), str(y)))
