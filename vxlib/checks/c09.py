"""C09 - syscall arguments are rendered from the matching START argument, in order."""
import z3
from vxlib import sweep
from vxlib.symx import And, Or, Not, Atom, term, SymInt
from vxlib.symx.values import mkb, W

PROPERTY = 'C09'
STUBS = ['struct.unpack model', 'enum lookup forks over members', 'format/hex/str of symbolic ints as atoms',
         'errno.errorcode as SymTable', 'AST rewrite: comprehension / cond-append / join / map merging (loader.py)']
ASSUMPTIONS = ['enum-typed arguments range over their enum (paths that leave it are outside the precondition)',
               'events are produced by the real from_kd_buf from oracle-packed records',
               'the string rendering of an int is opaque (atoms): only WHICH word is rendered and in which form is checked']
OUTSIDE = ['the digits produced by CPython int formatting', 'decoders other than BSC_*/MSC_* (no name(p0,..) form)']
EXPLORE_OPTS = {'max_paths': 20000, 'max_seconds': 900}
weight = sweep.weight


def setup(symbolic):
    if symbolic:
        from vxlib.symx import shims, loader
        loader.install()
        shims.install()
    sweep.snapshot_state()


def bounds(tier):
    return {'decoders': 'every BSC_*/MSC_* name registered in TracesParser.handlers and present in the bundled table',
            'START words': 'a0..a3 free 64-bit', 'END words': 'r0..r3 free 64-bit; second END r0\'..r3\' free (2-copy)',
            'lookups': 'structures: 1 lookup of 3 symbolic non-NUL ASCII bytes' + ('' if tier == 'quick' else '; 0 lookups; 1 lookup of 30 bytes'),
            'window': 'START, [lookup records], END on one thread; no unrelated records; lost-end structures: an earlier '
                      'START of the same call (free words) whose END never arrives'}


PROBES = ['MSC_mach_vm_protect_trap', 'MSC_mach_port_guard_trap', 'BSC_read', 'BSC_mmap']


PROBE_WORDS = [(0x1503, 2, 0x303, 0x404), (11, 1, 13, 14), (7, 3, 9, 8), (5, 4, 6, 0x1f), (0x21, 5, 0x23, 0x24), (3, 0, 2, 1)]


class _ProbeCtx:
    symbolic = False

    def template(self, s):
        return [s]


def numeric_positions(name):
    """positions of the call at which SOME concrete probe shows its (non-zero) word as a number: there the decoder renders
    the argument numerically, so a bare 0 at such a position claims that the word is 0"""
    out = set()
    for w in PROBE_WORDS:
        try:
            o = sweep.run_window(_ProbeCtx(), name, list(w), [0, 0, 0, 0])
        except BaseException:       # noqa
            continue
        if o.kind != 'text':
            continue
        cs = sweep.split_call([o.text])
        if not cs.ok:
            continue
        for k, par in enumerate(cs.params[:4]):
            txt = ''.join(sweep.strip_comments(par)).strip()
            if w[k] != 0 and txt in (str(w[k]), hex(w[k])):
                out.add(k)
    return sorted(out)


def structures(tier):
    sts = []
    numpos = {n: numeric_positions(n) for n in sweep.decoder_names()}
    for n in sweep.decoder_names():
        if tier == 'thorough' or n.startswith('MSC_') or sweep.weight({'name': n}) == 1 and sum(n.encode()) % 4 == 0:
            sts.append({'name': n, 'kind': 'history'})
        sts.append({'name': n, 'lookups': 1, 'len': 3, 'numpos': numpos[n]})
        if tier == 'thorough' or n in PROBES or sum(n.encode()) % 16 == 0:
            sts.append({'name': n, 'kind': 'lost-end'})
        sts.append({'name': n, 'lookups': 0, 'pre': True})       # the parser tables in an arbitrary state
        if tier == 'thorough':
            sts.append({'name': n, 'lookups': 0})
            sts.append({'name': n, 'lookups': 1, 'len': 30})
    return sts


def _forms(ak):
    """renderings the property admits for the word ak"""
    t = term(ak)
    lo32 = z3.Extract(31, 0, t)
    lo64 = z3.Extract(63, 0, t)
    # lossless: the word itself or all 64 bits read as signed; tolerated: the low 32 bits as an unsigned value (a masked
    # 32-bit C argument).  A sign-extended 32-bit truncation loses bits AND changes the sign: not a rendering of the word.
    return [t, z3.ZeroExt(W - 32, lo32), z3.SignExt(W - 64, lo64)]


def _admits(shown, ak):
    """z3 Bool: the 128-bit value `shown` is an admitted rendering of the word ak.  Besides _forms: the low 32 bits read as
    a signed C int when that is a small negative number (-4096..-1: the sentinel idiom, e.g. (gid_t)-1 shown as -1); a
    large-magnitude sign-extended truncation (an off_t shown through c_int32) is not a rendering of the word."""
    t = term(ak)
    s32 = z3.SignExt(W - 32, z3.Extract(31, 0, t))
    small = z3.And(s32 < 0, s32 >= -4096)
    return Or(*([mkb(shown == f) for f in _forms(ak)] + [mkb(z3.And(shown == s32, small))]))


def run_lost_end(ctx, st):
    """an earlier START of the same call on the same thread whose END was lost: the later START..END pair is still
    rendered from its own START"""
    name = st['name']
    a = [ctx.int('a%d' % i) for i in range(4)]
    r = [ctx.int('r%d' % i) for i in range(4)]
    b = [ctx.int('b%d' % i) for i in range(4)]
    o1 = sweep.run_window(ctx, name, a, r)
    if o1.kind != 'text':
        ctx.reach('outcome:' + o1.kind); ctx.reach(); return
    o2 = sweep.run_window(ctx, name, a, r, lost=[b])
    L = 'C09/%s' % name
    if o2.kind != 'text':
        ctx.check(L + '/after-lost-END', False, 'with an unfinished earlier call: ' + o2.kind)
    else:
        ctx.check(L + '/after-lost-END', sweep.pieces_equal(o1.pieces, o2.pieces) if ctx.symbolic else o1.text == o2.text,
                  'the call is rendered differently after an unfinished earlier call of the same kind')
    ctx.reach()


def run_history(ctx, st):
    """decode Y, then a few other calls (probes, words 0/1 and free), then Y again on the same words: same text"""
    name = st['name']
    a = [ctx.int('a%d' % i) for i in range(4)]
    r = [ctx.int('r%d' % i) for i in range(4)]
    sweep.reset_state()                      # what a fresh interpreter starts from
    o1 = sweep.run_window(ctx, name, a, r)
    if o1.kind != 'text':
        ctx.reach('outcome:' + o1.kind); ctx.reach(); return
    sweep.reset_state()
    for i, pr in enumerate(PROBES):
        pa = [ctx.int('p%d_%d' % (i, j)) for j in range(4)]
        sweep.run_window(ctx, pr, [pa[0], pa[1], pa[2], pa[3] & 1], [0, 0, 0, 0])
    o2 = sweep.run_window(ctx, name, a, r)
    sweep.reset_state()
    L = 'C09/%s' % name
    if o2.kind != 'text':
        ctx.check(L + '/history-independent', False, 'second decoding: ' + o2.kind)
    else:
        same = sweep.pieces_equal(o1.pieces, o2.pieces) if ctx.symbolic else o1.text == o2.text
        ctx.check(L + '/history-independent', same, 'same words render differently after other calls were decoded: %r / %r' % (
            None if ctx.symbolic else o1.text, None if ctx.symbolic else o2.text))
    ctx.reach()


def run(ctx, st):
    if st.get('kind') == 'history':
        return run_history(ctx, st)
    if st.get('kind') == 'lost-end':
        return run_lost_end(ctx, st)
    name = st['name']
    a = [ctx.int('a%d' % i) for i in range(4)]
    r = [ctx.int('r%d' % i) for i in range(4)]
    r2 = [ctx.int('s%d' % i) for i in range(4)]
    lookups = []
    if st['lookups']:
        text = ctx.bytes('path', st['len'])
        for i in range(st['len']):
            ctx.assume(And(text[i] != 0, text[i] < 0x80, text[i] != 0x22, text[i] != 0x5c))
        lookups = [(text, ctx.int('vnode'))]
    if st.get('pre'):
        o1 = sweep.with_prestate(ctx, lambda tabs: sweep.run_window(ctx, name, a, r, lookups, tables=tabs))
    else:
        o1 = sweep.run_window(ctx, name, a, r, lookups)
    if o1.kind != 'text':
        ctx.reach('outcome:' + o1.kind)
        ctx.reach()
        return
    ctx.observe('text', o1.text)
    cs = sweep.split_call(o1.pieces)
    L = 'C09/%s' % name
    ctx.check(L + '/shape', cs.ok)
    for k, par in enumerate(cs.params):
        core = sweep.strip_comments(par)
        if ctx.symbolic:
            if len(core) == 1 and isinstance(core[0], str) and _NUM.fullmatch(core[0]) and k < 4:
                # a constant chosen on this path (e.g. '-1' for an id of 0xffffffff): the path condition must pin the word
                # to a value that renders that way; a bare 0 stands for 'nothing set' in flag positions and is not judged
                v = int(core[0], 0)
                if v != 0 or k in st.get('numpos', ()):
                    ctx.check('%s/pos%d' % (L, k), _admits(z3.BitVecVal(v, W), a[k]),
                              'position %d shows the constant %s' % (k, core[0]))
            nums = [at for at in sweep.atoms_of(core) if at.is_numeric()]
            for at in nums:
                if k >= 4:
                    ctx.check('%s/pos%d' % (L, k), False, 'numeric parameter beyond the four recorded arguments')
                else:
                    ctx.check('%s/pos%d' % (L, k), _admits(at.term, a[k]), 'position %d renders %s' % (k, at.describe()))
        else:
            txt = ''.join(core)
            lits = _NUM.findall(_QUOTED.sub('""', txt))
            for lit in lits:
                if k >= 4:
                    ctx.check('%s/pos%d' % (L, k), False, 'numeric parameter beyond the four recorded arguments')
                else:
                    lo = a[k] & 0xffffffff
                    s32 = lo - (1 << 32) if lo >> 31 else lo
                    ok = any(lit in (str(f), hex(f)) for f in _cforms(a[k]) + ([s32] if -4096 <= s32 < 0 else []))
                    # a literal that is part of the decoder's fixed text (e.g. a literal 0 for an empty flag list)
                    # cannot be told from a rendered word concretely; the symbolic run only judges rendered words
                    ctx.check('%s/pos%d' % (L, k), ok, 'position %d shows %s for a%d=%#x' % (k, lit, k, a[k]))
    if st.get('pre'):
        ctx.reach()
        return
    # 2-copy: same START and lookups, another END -> identical call part
    o2 = sweep.run_window(ctx, name, a, r2, lookups)
    if o2.kind != 'text':
        ctx.reach('outcome2:' + o2.kind)      # the second END makes the decoder fail: C07's subject
    else:
        cs2 = sweep.split_call(o2.pieces)
        same = cs.name == cs2.name and len(cs.params) == len(cs2.params)
        cond = And(*[sweep.pieces_equal(p, q) for p, q in zip(cs.params, cs2.params)]) if same else False
        ctx.check(L + '/call-independent-of-END', cond)
    ctx.reach()


def core_text(core):
    return ''.join(x for x in core if isinstance(x, str)).strip()


import re
_NUM = re.compile(r'(?<![A-Za-z_0-9])-?(?:0x[0-9a-fA-F]+|[0-9]+)(?![A-Za-z_0-9])')
_QUOTED = re.compile(r'"[^"]*"')


def _cforms(v):
    lo32 = v & 0xffffffff
    s32 = lo32 - (1 << 32) if lo32 >> 31 else lo32
    lo64 = v & 0xffffffffffffffff
    s64 = lo64 - (1 << 64) if lo64 >> 63 else lo64
    return [v, lo32, s64]
