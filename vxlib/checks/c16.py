"""C16 - log records decode for every combination of optional fields."""
import datetime as _dt
import itertools
from oracle import oslog as O
from vxlib.symx import And, Or, Not, Implies, SymInt, SymBool, OutOfDomain, Unsupported, term
from vxlib.symx.values import mkb

PROPERTY = 'C16'
STUBS = ['presence of each optional key is a symbolic boolean behind a dict proxy (`k in event` forks)',
         'enum forks (a log type outside the enum = outside the precondition)',
         'firehose_tracepoint_id.parse / Int64ul.build: bit extraction generated from the construct object (cstruct.py), '
         'validated against construct\'s own parse on seeded words every run',
         'Flag enums: fork over the values of the (bounded) flag byte']
ASSUMPTIONS = ['string ids and strings are concrete and resolvable; numeric values symbolic 64-bit',
               'presence subsets are bounded: at most K optional keys present or at most K absent (K=2 quick, 3 thorough); '
               'the full 2^31 is not reached (presence is control flow)',
               'trace identifier: namespace/type range over the defined values; namespace flag byte < 32 for log, in the '
               'defined values for trace; code free 32-bit']
OUTSIDE = ['the float computation of the UTC instant beyond the enumerated representatives',
           'subsets with 3 < |present| < 28 (quick: 2 < . < 29)', 'message shapes with more than 2 segments']
EXPLORE_OPTS = {'max_paths': 120000, 'max_seconds': 1500}
STRINGS = {101: 'composed', 102: '/bin/proc', 0: 'proc', 104: '/lib/sender', 105: 'sender', 106: 'subsys', 107: 'categ',
           108: 'fmt %d', 109: 'signpost', 110: 'prefix', 111: '%d', 112: 'tok', 113: 'ns', 114: 'ty', 115: 'objrep'}
STR_OF = {'pip': 102, 'p': 0, 'sip': 104, 'send': 105, 'sub': 106, 'cat': 107, 'f': 108, 'sn': 109}


def setup(symbolic):
    if symbolic:
        from vxlib.symx import shims
        shims.install()


def bounds(tier):
    k = 2 if tier == 'quick' else 3
    return {'optional keys': '31; presence symbolic, at most %d present or at most %d absent' % (k, k),
            'values': 'numeric fields free 64-bit; log type over its enum', 'message': 'one segment with every subset of its 3 '
            'sub-dicts; placeholder and argument sub-keys: every subset (quick: subsets of size <= 2 or >= n-1); two-segment order',
            'trace identifier': 'all words whose namespace/type are defined, flag byte bounded, code free 32-bit',
            'UTC instant': 'representative (sec, usec) pairs incl. usec 0, 1, 499999, 500000, 999999'}


def structures(tier):
    k = 2 if tier == 'quick' else 3
    sts = [{'kind': 'presence', 'mode': 'few', 'k': k}, {'kind': 'presence', 'mode': 'most', 'k': k}]
    # shard the presence space by the first three keys to spread the work
    sts = []
    keys = sorted(O.OPTIONAL)
    for mode in ('few', 'most'):
        nfix = 5 if mode == 'few' else 9
        for combo in itertools.product((False, True), repeat=nfix):
            if (mode == 'few' and sum(combo) > k) or (mode == 'most' and nfix - sum(combo) > k):
                continue        # no subset of that size has this prefix
            sts.append({'kind': 'presence', 'mode': mode, 'k': k, 'fix': {keys[i]: combo[i] for i in range(nfix)}})
    for ns in sorted(O.NAMESPACES):
        sts.append({'kind': 'ti', 'ns': ns})
    for top in itertools.product((False, True), repeat=3):
        sts.append({'kind': 'dm', 'top': list(top), 'full': tier == 'thorough'})
    sts.append({'kind': 'dm2'})
    sts.append({'kind': 'v3-defaults'})
    for first in ('same-indices', 'other-indices', 'none'):
        sts.append({'kind': 'two-tables', 'first': first})
    sts.append({'kind': 'date'})
    return sts


def weight(st):
    return {'presence': 10, 'dm': 5}.get(st['kind'], 1)


class PresenceDict:
    """a raw log record whose optional keys are present or absent symbolically"""

    def __init__(self, present, values):
        self.present = present        # key -> bool | SymBool
        self.values = values

    def __contains__(self, k):
        if k in self.present:
            return bool(self.present[k])      # forks
        return k in self.values

    def pop(self, k, *d):
        if k in self.present and not bool(self.present[k]):
            if d:
                return d[0]
            raise KeyError(k)
        return self.values[k]

    def __getitem__(self, k):
        return self.pop(k)

    def get(self, k, d=None):
        return self.pop(k, d)


def _mandatory(ctx):
    return {'cm': 101, 't': ctx.int('t'), 's': ctx.int('s'), 'tid': ctx.int('tid'), 'ns': ctx.int('ns'), 'mct': ctx.int('mct'),
            'b': b'\x01' * 16, 'piu': b'\x02' * 16, 'ud': {'sec': 1633872873, 'usec': 810447},
            'utz': {'mw': ctx.int('mw', 16), 'dt': ctx.int('dt', 1)}}


def _optional_values(ctx):
    v = {}
    for k, (field, kind) in O.OPTIONAL.items():
        if kind == 'int':
            v[k] = ctx.int('v_' + k)
        elif kind == 'str':
            v[k] = STR_OF[k]
        elif kind == 'bytes':
            v[k] = b'\x07' * 16
        elif kind == 'logtype':
            v[k] = ctx.int('v_lt', 8)
        elif kind == 'tz':
            v[k] = {'mw': ctx.int('v_%s_mw' % k, 16), 'dt': ctx.int('v_%s_dt' % k, 1)}
        elif kind == 'date':
            v[k] = {'sec': ctx.int('v_%s_sec' % k), 'usec': ctx.int('v_%s_usec' % k, 20)}
        elif kind == 'bt':
            v[k] = [{'iu': b'\x03' * 16, 'io': ctx.int('v_bt_io0')}, {'iu': b'\x04' * 16, 'io': ctx.int('v_bt_io1')}]
        elif kind == 'lc':
            v[k] = {'c': ctx.int('v_lc_c'), 's': ctx.int('v_lc_s')}
        elif kind == 'ti':
            v[k] = 101451216374071556
        elif kind == 'dm':
            v[k] = {'pc': 0, 's': ctx.int('v_dm_s')}
    return v


def _popcount(bits):
    import z3
    from vxlib.symx.values import mk
    tot = 0
    for b in bits:
        tot = tot + b
    return tot


def run_v3_defaults(ctx, st):
    """log records read from a version-3 dump: a record that names no process keeps the defaults, whatever the thread map
    or earlier records of the same thread say about its thread"""
    from oracle import v3 as V
    from pykdebugparser.pykdebugparser import PyKdebugParser
    from vxlib.symx.stream import make_stream
    T1, T2 = 0x501, 0x777
    logs = {'Events': [V.mandatory(1, T1, p=0, pid=V.LOG_PID), V.mandatory(4, T1), V.mandatory(4, T2), V.mandatory(1, T2, pid=5)]}
    data = V.v3_file(threads=[(T2, 70, b'locationd')], chunks=[[bytes(64)]], blocks=[('strings', V.sample_strings()), ('logs', logs)])
    p = PyKdebugParser()
    try:
        out = list(p.os_log_events(make_stream(data)))
    except Exception as e:      # noqa
        __import__('vxlib.symx.core', fromlist=['x']).proxy_rejected(e)
        ctx.check('C16/v3/decodes', False, '%s: %s' % (type(e).__name__, e)); ctx.reach(); return
    L = 'C16/v3'
    ctx.check(L + '/all-records', len(out) == 4, '%d records' % len(out))
    if len(out) == 4:
        ctx.check(L + '/named-process', out[0].process == V.LOG_PROCESS_NAME and out[0].process_identifier == V.LOG_PID)
        ctx.check(L + '/absent-process-after-a-named-record-of-the-thread', out[1].process == '' and out[1].process_identifier == 0,
                  'process %r pid %r' % (out[1].process, out[1].process_identifier))
        ctx.check(L + '/absent-process-of-a-thread-in-the-thread-map', out[2].process == '' and out[2].process_identifier == 0,
                  'process %r pid %r' % (out[2].process, out[2].process_identifier))
        ctx.check(L + '/pid-without-name', out[3].process == '' and out[3].process_identifier == 5,
                  'process %r pid %r' % (out[3].process, out[3].process_identifier))
    ctx.reach()


def run_two_tables(ctx, st):
    """two dumps in one process: a record of the second dump is decoded against the second dump's string table, whatever
    was decoded against another table before (same string indices, other indices, or nothing)"""
    from pykdebugparser.os_log_event import OsLogEvent
    A = dict(STRINGS)
    B = {k: v + '#B' for k, v in STRINGS.items()}

    mand = _mandatory(ctx)

    def record(tag, shift):
        values = dict(mand)
        for k, idx in STR_OF.items():
            values[k] = idx
        seg = {'lp': 110, 'p': {'rs': 111, 't': [112, 113], 'tn': 113, 'ty': 114, 'w': ctx.int(tag + 'w'), 'p': ctx.int(tag + 'p')},
               'a': {'a': 3, 'p': 0, 'c': 2, 'or': 115}}
        values['dm'] = {'pc': 1, 's': ctx.int(tag + 'state'), 'seg': [seg]}
        return values
    try:
        if st['first'] == 'same-indices':
            OsLogEvent.from_raw_log_event(record('x', 0), A)
        elif st['first'] == 'other-indices':
            ev = record('x', 0)
            ev['dm']['seg'][0]['p'].update({'rs': 110, 't': [115], 'tn': 112, 'ty': 112})
            OsLogEvent.from_raw_log_event(ev, A)
        rec_y = record('y', 0)
        yw, yp = rec_y['dm']['seg'][0]['p']['w'], rec_y['dm']['seg'][0]['p']['p']
        lg = OsLogEvent.from_raw_log_event(rec_y, B)
    except Exception as e:      # noqa
        __import__('vxlib.symx.core', fromlist=['x']).proxy_rejected(e)
        ctx.check('C16/two-tables/decodes', False, '%s: %s' % (type(e).__name__, e)); ctx.reach(); return
    L = 'C16/two-tables'
    ctx.check(L + '/composed-message', lg.composed_message == B[101])
    for k, idx in STR_OF.items():
        field, _ = O.OPTIONAL[k]
        ctx.check(L + '/' + k, getattr(lg, field) == B[idx], '%s is %r' % (field, getattr(lg, field)))
    segs = (lg.decomposed_message or {}).get('segments', [])
    ctx.check(L + '/segments', len(segs) == 1)
    if segs:
        s = segs[0]
        ph = s.get('placeholder', {})
        ctx.check(L + '/literal-prefix', s.get('literal_prefix') == B[110], repr(s.get('literal_prefix')))
        ctx.check(L + '/placeholder/raw_string', ph.get('raw_string') == B[111], repr(ph.get('raw_string')))
        ctx.check(L + '/placeholder/tokens', ph.get('tokens') == [B[112], B[113]], repr(ph.get('tokens')))
        ctx.check(L + '/placeholder/type_namespace', ph.get('type_namespace') == B[113], repr(ph.get('type_namespace')))
        ctx.check(L + '/placeholder/type', ph.get('type') == B[114], repr(ph.get('type')))
        ctx.check(L + '/placeholder/width-precision-of-its-own-record', And(ph.get('width') == yw, ph.get('precision') == yp))
        ar = s.get('arg', {})
        ctx.check(L + '/argument/object_representation', ar.get('object_representation') == B[115], repr(ar))
    ctx.reach()


def run(ctx, st):
    if st['kind'] == 'two-tables':
        return run_two_tables(ctx, st)
    if st['kind'] == 'v3-defaults':
        return run_v3_defaults(ctx, st)
    return {'presence': run_presence, 'ti': run_ti, 'dm': run_dm, 'dm2': run_dm2, 'date': run_date}[st['kind']](ctx, st)


def _defaults():
    import dataclasses
    from pykdebugparser.os_log_event import OsLogEvent
    out = {}
    for f in dataclasses.fields(OsLogEvent):
        if f.default is not dataclasses.MISSING:
            out[f.name] = f.default
        elif f.default_factory is not dataclasses.MISSING:
            out[f.name] = f.default_factory()
    return out


def run_presence(ctx, st):
    from pykdebugparser.os_log_event import OsLogEvent
    keys = sorted(O.OPTIONAL)
    bits = {k: ctx.int('has_' + k, 1) for k in keys}
    for k, val in st.get('fix', {}).items():
        ctx.assume(bits[k] == (1 if val else 0))
    n = _popcount([bits[k] for k in keys])
    if st['mode'] == 'few':
        ctx.assume(n <= st['k'])
    else:
        ctx.assume(n >= len(keys) - st['k'])
    present = {k: (bits[k] != 0) for k in keys}
    values = dict(_mandatory(ctx))
    opt = _optional_values(ctx)
    values.update(opt)
    ev = PresenceDict(present, values)
    L = 'C16'
    try:
        lg = OsLogEvent.from_raw_log_event(ev, dict(STRINGS))
    except OutOfDomain:
        ctx.reach('ood'); ctx.reach(); return
    except Exception as e:      # noqa
        __import__('vxlib.symx.core', fromlist=['x']).proxy_rejected(e)
        # label by the optional keys present on this path, so that a key that breaks decoding is named
        here = [k for k in keys if bool(present[k])]
        culprit = _culprit(here)
        ctx.check('%s/%s' % (L, culprit), False, '%s: %s (optional keys present: %s)' % (type(e).__name__, e, here))
        ctx.reach()
        return
    defaults = _defaults()
    ctx.check(L + '/mandatory', And(lg.composed_message == STRINGS[101], lg.type_ == values['t'], lg.size == values['s'],
                                    lg.thread_identifier == values['tid'],
                                    lg.continuous_nanoseconds_since_boot == values['ns'],
                                    lg.mach_continuous_timestamp == values['mct'], lg.boot_uuid == values['b'],
                                    lg.process_image_uuid == values['piu'],
                                    lg.unix_timezone['minutes_west'] == values['utz']['mw'],
                                    lg.unix_timezone['dst_time'] == values['utz']['dt']))
    for k in keys:
        field, kind = O.OPTIONAL[k]
        has = bool(present[k])
        got = getattr(lg, field, None)
        lab = '%s/%s' % (L, k)
        if not has:
            ctx.check(lab, _eq(got, defaults.get(field)), 'absent key: field %s is %r, default %r' % (field, got, defaults.get(field)))
            continue
        v = opt[k]
        if kind == 'int':
            ctx.check(lab, got == v)
        elif kind == 'str':
            ctx.check(lab, got == STRINGS[v])
        elif kind == 'bytes':
            ctx.check(lab, got == v)
        elif kind == 'logtype':
            ctx.check(lab, And(got is not None, getattr(got, 'value', None) == v, getattr(got, 'name', None) in O.LOG_TYPES.values()))
        elif kind == 'tz':
            ctx.check(lab, And(got.get('minutes_west') == v['mw'], got.get('dst_time') == v['dt']))
        elif kind == 'date':
            ctx.check(lab, And(got.get('sec') == v['sec'], got.get('usec') == v['usec']))
        elif kind == 'bt':
            ctx.check(lab, And(len(got) == 2, got[0]['image_uuid'] == v[0]['iu'], got[0]['image_offset'] == v[0]['io'],
                               got[1]['image_uuid'] == v[1]['iu'], got[1]['image_offset'] == v[1]['io']))
        elif kind == 'lc':
            ctx.check(lab, And(got.get('count') == v['c'], got.get('unknown') == v['s']))
        elif kind == 'ti':
            ctx.check(lab, got is not None and got.code == 23620952)
        elif kind == 'dm':
            ctx.check(lab, And(got.get('placeholder_count') == 0, got.get('state') == v['s']))
    ctx.reach()


def _culprit(here):
    """names the optional keys that already break decoding when present alone (found by concrete re-runs with
    representative values); falls back to the whole subset"""
    from pykdebugparser.os_log_event import OsLogEvent
    alone = []
    for k in here:
        ev = {'cm': 101, 't': 0, 's': 0, 'tid': 1, 'ns': 0, 'mct': 0, 'b': b'', 'piu': b'', 'ud': {'sec': 1, 'usec': 1},
              'utz': {'mw': 0, 'dt': 0}}
        kind = O.OPTIONAL[k][1]
        ev[k] = {'int': 5, 'str': STR_OF.get(k, 101), 'bytes': b'x', 'logtype': 1, 'tz': {'mw': 1, 'dt': 0},
                 'date': {'sec': 1, 'usec': 2}, 'bt': [], 'lc': {'c': 1, 's': 2}, 'ti': 101451216374071556,
                 'dm': {'pc': 0, 's': 0}}[kind]
        try:
            OsLogEvent.from_raw_log_event(ev, dict(STRINGS))
        except Exception:       # noqa
            alone.append(k)
    if alone:
        return '+'.join(alone)
    return '+'.join(here) if len(here) <= 3 else 'all-but-' + '+'.join(sorted(set(O.OPTIONAL) - set(here)))


def _eq(a, b):
    r = (a == b)
    return False if r is NotImplemented else r


def run_ti(ctx, st):
    import pykdebugparser.os_log_event as ole
    from vxlib.symx import cstruct
    ns = st['ns']
    w = ctx.int('ti')
    ctx.assume((w & 0xff) == ns)
    nsname = O.NAMESPACES[ns]
    types = O.TYPES.get(nsname)
    ty = (w >> 8) & 0xff
    if types:
        ctx.assume(Or(*[ty == v for v in types]))
    if nsname == 'signpost':
        ctx.assume(ty < 4)
    hi = (w >> 24) & 0xff
    if nsname == 'log':
        ctx.assume(hi < 32)
    elif nsname == 'trace':
        ctx.assume(Or(*[hi == v for v in (1, 2, 4, 8, 0x10, 0x80)]))
    ctx.assume(((w >> 22) & 3) == 0)       # the two reserved bits of the base flags
    saved = (getattr(ole, 'firehose_tracepoint_id', None), getattr(ole, 'Int64ul', None))
    if ctx.symbolic and saved[0] is not None and saved[1] is not None:
        ole.firehose_tracepoint_id = cstruct.ParseStub(saved[0])
        ole.Int64ul = cstruct.BuildStub(saved[1])
    try:
        try:
            t = ole.OsLogEvent.parse_trace_identifier(w)
        except OutOfDomain:
            ctx.reach('ood'); ctx.reach(); return
        except Exception as e:      # noqa
            __import__('vxlib.symx.core', fromlist=['x']).proxy_rejected(e)
            ctx.check('C16/trace-identifier/%s' % nsname, False, '%s: %s' % (type(e).__name__, e)); ctx.reach(); return
    finally:
        if saved[0] is not None and saved[1] is not None:
            ole.firehose_tracepoint_id, ole.Int64ul = saved
    want = O.unpack_trace_id(w)
    ctx.observe('decoded', [getattr(t.type_, 'value', t.type_), _b(t.has_large_offset), _b(t.has_unique_pid), t.pc_style.value,
                            _b(t.has_current_aid), getattr(t.flags, 'value', None), t.code])
    L = 'C16/trace-identifier/' + nsname
    ctx.check(L + '/namespace', t.namespace.value == ns and t.namespace.name == nsname)
    tv = getattr(t.type_, 'value', t.type_)
    ctx.check(L + '/type', tv == want['type'])
    if types:
        ctx.check(L + '/type-name', Or(*[And(want['type'] == v, getattr(t.type_, 'name', None) == n) for v, n in types.items()]))
    ctx.check(L + '/base-flags', And(_b(t.has_large_offset) == want['has_large_offset'], _b(t.has_unique_pid) == want['has_unique_pid'],
                                     _b(t.has_current_aid) == want['has_current_aid']))
    ctx.check(L + '/pc-style', And(t.pc_style.value == want['pc_style'], t.pc_style.name == O.PC_STYLES[t.pc_style.value]))
    ctx.check(L + '/code', t.code == want['code'])
    if nsname in ('log', 'trace'):
        ctx.check(L + '/flags', And(t.flags is not None, getattr(t.flags, 'value', None) == want['flags']))
    else:
        ctx.check(L + '/flags', t.flags is None)
    ctx.reach()


def _b(x):
    from vxlib.symx import Ite
    if isinstance(x, SymBool):
        return Ite(x, 1, 0)
    return 1 if x else 0


SEG_P = ['rs', 't', 'tn', 'ty']
SEG_A = ['a', 'p', 'c', 'sc', 'st', 'or']


def _segment(ctx, tag, top, full=True):
    """segment dict with symbolic presence of the sub-keys of the sub-dicts enabled by `top` = (lp, p, a)"""
    seg_vals, seg_present = {}, {}
    exp = {}
    if top[0]:
        seg_vals['lp'] = 110
    if top[1]:
        pv = {'rs': 111, 't': [112, 112], 'tn': 113, 'ty': 114, 'w': ctx.int(tag + 'w'), 'p': ctx.int(tag + 'p')}
        pb = {k: ctx.int('%shas_p_%s' % (tag, k), 1) for k in SEG_P}
        if not full:
            n = _popcount(list(pb.values()))
            ctx.assume(Or(n <= 1, n >= len(SEG_P) - 1))
        seg_vals['p'] = PresenceDict({k: pb[k] != 0 for k in SEG_P}, pv)
    if top[2]:
        av = {'a': ctx.int(tag + 'aa', 3), 'p': ctx.int(tag + 'ap'), 'c': ctx.int(tag + 'ac', 3), 'sc': ctx.int(tag + 'asc'),
              'st': ctx.int(tag + 'ast'), 'or': 115}
        ab = {k: ctx.int('%shas_a_%s' % (tag, k), 1) for k in SEG_A}
        if not full:
            n = _popcount(list(ab.values()))
            ctx.assume(Or(n <= 2, n >= len(SEG_A) - 1))
        seg_vals['a'] = PresenceDict({k: ab[k] != 0 for k in SEG_A}, av)
    return PresenceDict({}, seg_vals), seg_vals


def _check_segment(ctx, L, got, seg_vals):
    if 'lp' in seg_vals:
        ctx.check(L + '/literal-prefix', got.get('literal_prefix') == STRINGS[110])
    else:
        ctx.check(L + '/literal-prefix', 'literal_prefix' not in got)
    if 'p' in seg_vals:
        pd = seg_vals['p']
        ph = got.get('placeholder')
        ctx.check(L + '/placeholder', ph is not None)
        if ph is not None:
            has = {k: bool(pd.present[k]) for k in SEG_P}
            ctx.check(L + '/placeholder/raw_string', (ph.get('raw_string') == STRINGS[111]) if has['rs'] else 'raw_string' not in ph)
            ctx.check(L + '/placeholder/tokens', (ph.get('tokens') == ['tok', 'tok']) if has['t'] else 'tokens' not in ph)
            ctx.check(L + '/placeholder/type_namespace', (ph.get('type_namespace') == 'ns') if has['tn'] else 'type_namespace' not in ph)
            ctx.check(L + '/placeholder/type', (ph.get('type') == 'ty') if has['ty'] else 'type' not in ph)
            ctx.check(L + '/placeholder/width-precision', And(ph.get('width') == pd.values['w'], ph.get('precision') == pd.values['p']))
    else:
        ctx.check(L + '/placeholder', 'placeholder' not in got)
    if 'a' in seg_vals:
        ad = seg_vals['a']
        arg = got.get('arg')
        ctx.check(L + '/arg', arg is not None)
        if arg is not None:
            has = {k: bool(ad.present[k]) for k in SEG_A}
            for k, f in (('a', 'availability'), ('p', 'privacy'), ('c', 'category')):
                ctx.check(L + '/arg/' + f, (arg.get(f) == ad.values[k]) if has[k] else f not in arg)
            # scalar details belong to category 1; the object representation is shown for an available argument (availability
            # absent or 3): through the string index for category 2, as the raw value otherwise
            scalar = has['c'] and bool(ad.values['c'] == 1)
            for k, f in (('sc', 'scalar_category'), ('st', 'scalar_type')):
                ctx.check(L + '/arg/' + f, (arg.get(f) == ad.values[k]) if (scalar and has[k]) else f not in arg,
                          '%s is %r' % (f, arg.get(f, '<absent>')))
            available = (not has['a']) or bool(ad.values['a'] == 3)
            if available and has['or']:
                want = STRINGS[115] if (has['c'] and bool(ad.values['c'] == 2)) else 115
                ctx.check(L + '/arg/object_representation', arg.get('object_representation', None) == want,
                          'object_representation is %r' % (arg.get('object_representation', '<absent>'),))
            else:
                ctx.check(L + '/arg/object_representation', 'object_representation' not in arg)
    else:
        ctx.check(L + '/arg', 'arg' not in got)


def run_dm(ctx, st):
    from pykdebugparser.os_log_event import OsLogEvent
    seg, seg_vals = _segment(ctx, 's0_', st['top'], st['full'])
    dm = {'pc': 1, 's': ctx.int('state'), 'seg': [seg]}
    L = 'C16/message'
    try:
        out = OsLogEvent.parse_decomposed(dm, dict(STRINGS))
    except Exception as e:      # noqa
        __import__('vxlib.symx.core', fromlist=['x']).proxy_rejected(e)
        missing = []
        for sub, keys in (('p', SEG_P), ('a', SEG_A)):
            if sub in seg_vals:
                missing += ['%s.%s' % (sub, k) for k in keys if not bool(seg_vals[sub].present[k])]
        ctx.check(L + '/decodes', False, '%s: %s (absent sub-keys: %s)' % (type(e).__name__, e, missing))
        ctx.reach()
        return
    ctx.check(L + '/decodes', True)
    ctx.check(L + '/header', And(out.get('placeholder_count') == 1, out.get('state') == dm['s'], len(out.get('segments', [])) == 1))
    if out.get('segments'):
        _check_segment(ctx, L, out['segments'][0], seg_vals)
    ctx.reach()


def run_dm2(ctx, st):
    from pykdebugparser.os_log_event import OsLogEvent
    s0 = {'lp': 110}
    s1 = {'lp': 111}
    out = OsLogEvent.parse_decomposed({'pc': 2, 's': 0, 'seg': [s0, s1]}, dict(STRINGS))
    ctx.check('C16/message/segments-in-order', [s.get('literal_prefix') for s in out.get('segments', [])] == [STRINGS[110], STRINGS[111]])
    # more segments than placeholders (a message that ends in literal text), and fewer
    for pc in (1,):         # (a count of 0 means 'no segment list' to the tool: not judged)
        o = OsLogEvent.parse_decomposed({'pc': pc, 's': 0, 'seg': [{'lp': 110}, {'lp': 111}]}, dict(STRINGS))
        ctx.check('C16/message/all-segments-whatever-the-placeholder-count',
                  o.get('placeholder_count') == pc and [s.get('literal_prefix') for s in o.get('segments', [])] == [STRINGS[110], STRINGS[111]],
                  'pc=%d: %r' % (pc, o))
    out0 = OsLogEvent.parse_decomposed({'pc': 0, 's': 7}, dict(STRINGS))
    ctx.check('C16/message/no-placeholders', out0 == {'placeholder_count': 0, 'state': 7})
    ctx.reach()


def run_date(ctx, st):
    """the UTC instant of the record's (sec, usec) pair - concrete representatives (float arithmetic is not encoded)"""
    from pykdebugparser.os_log_event import OsLogEvent
    for sec in (0, 1, 1633872873, 1700000000, 2 ** 31 - 1, 4102444800):
        for usec in (0, 1, 499999, 500000, 810447, 999999):
            ev = {'cm': 101, 't': 0, 's': 0, 'tid': 1, 'ns': 0, 'mct': 0, 'b': b'', 'piu': b'',
                  'ud': {'sec': sec, 'usec': usec}, 'utz': {'mw': 0, 'dt': 0}}
            lg = OsLogEvent.from_raw_log_event(ev, dict(STRINGS))
            want = _dt.datetime(1970, 1, 1, tzinfo=_dt.timezone.utc) + _dt.timedelta(seconds=sec, microseconds=usec)
            ctx.check('C16/utc-instant', lg.unix_date == want, 'sec=%d usec=%d -> %s, expected %s' % (sec, usec, lg.unix_date, want))
    ctx.reach()
