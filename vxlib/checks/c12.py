"""C12 - event filters select exactly the matching subsequence."""
from oracle import kdebug as K
from vxlib.symx import And, Or, Not, Implies, SymMap
from vxlib.symx.stream import make_stream

PROPERTY = 'C12'
STUBS = ['struct.unpack model', 'SymStream', 'SymMap for the thread tables', 'plistlib runs on concrete bytes (v3 blocks)',
         'structure crosshair: none (CrossHair 0.0.110 executes _is_eventid_allowed itself, in a subprocess without shims)']
ASSUMPTIONS = ['v2 files: the first record does not begin with 0x00 (C02 known finding)',
               'v3 files: log records are concrete representatives (plist = C boundary); event records symbolic']
OUTSIDE = ['more than 3 records / 2 filter entries per list', 'log contents other than the representatives']
EXPLORE_OPTS = {'max_paths': 60000, 'max_seconds': 900}


def setup(symbolic):
    if symbolic:
        from vxlib.symx import shims, loader
        loader.install()
        shims.install()


def bounds(tier):
    return {'records': 'm = %s, all 64 bytes symbolic' % ('2' if tier == 'quick' else '1..3'),
            'filter_tid': 'None or a free 64-bit value', 'filter_class / filter_subclass': 'lists of 0..2 free 32-bit ints each '
            '(empty, overlapping, duplicate, absent all reached)',
            'v3': 'two event chunks (2 symbolic events) followed by a log block of 2 concrete records; tid/process filters on logs'}


def structures(tier):
    sts = []
    ms = [2] if tier == 'quick' else [1, 2, 3]
    for m in ms:
        for tidf in (False, True):
            for nc in (0, 1, 2):
                for ns in (0, 1, 2):
                    if m == 3 and nc + ns > 2:
                        continue
                    sts.append({'kind': 'v2', 'm': m, 'tid': tidf, 'nc': nc, 'ns': ns})
    for tidf in (False, True):
        for proc in (None, 'name', 'pid', 'other'):
            sts.append({'kind': 'v3logs', 'tid': tidf, 'proc': proc})
    # log records that name no process, on a thread an earlier record / the thread map knows: judged by their own fields
    for proc in ('name', 'pid', 'other', '0', ''):
        sts.append({'kind': 'v3logs', 'tid': False, 'proc': proc, 'logs': 'anonymous'})
    sts.append({'kind': 'v3events', 'nc': 1, 'ns': 1})
    sts.append({'kind': 'v2', 'm': 2, 'tid': False, 'nc': 0, 'ns': 3})
    sts.append({'kind': 'v2', 'm': 1, 'tid': False, 'nc': 1, 'ns': 3})
    for edit in ('append-class', 'remove-class', 'append-subclass', 'clear'):
        sts.append({'kind': 'edit', 'm': 2, 'edit': edit})
    # second engine on the admission predicate: CrossHair (its own symbolic ints and lists, its own path exploration)
    sts.append({'kind': 'crosshair', 'maxlen': 2 if tier == 'quick' else 3, 'timeout': 60 if tier == 'quick' else 240})
    return sts


def weight(st):
    return st.get('m', 1) * (1 + st.get('nc', 0) + st.get('ns', 0))


def _spec_keep(rec, ftid, classes, subclasses):
    keep = True
    if ftid is not None:
        keep = And(keep, rec.tid == ftid)
    if classes or subclasses:
        keep = And(keep, Or(*([(rec.eventid >> 24) == c for c in classes] + [(rec.eventid >> 16) == s for s in subclasses])))
    return keep


def _same(e, spec):
    return And(e.timestamp == spec.timestamp, e.data == spec.data, e.tid == spec.tid, e.debugid == spec.debugid,
               e.eventid == spec.eventid, e.func_qualifier == spec.func)


def run_edit(ctx, st):
    """a listing, an in-place edit of the filter lists, a second listing on the same parser: each honours the filter
    as it stands when the listing is requested"""
    from pykdebugparser.pykdebugparser import PyKdebugParser
    m = st['m']
    records = [ctx.bytes('rec%d' % i, 64) for i in range(m)]
    ctx.assume(records[0][0] != 0)
    c0, c1, s0 = ctx.int('c0', 8), ctx.int('c1', 8), ctx.int('s0', 16)
    p = PyKdebugParser()
    if ctx.symbolic:
        p.threads_pids, p.pids_names = SymMap(), SymMap()
    p.filter_class = [c0]
    p.filter_subclass = []
    data = K.v2_file([], 0, records)
    specs = [K.Rec(r) for r in records]
    try:
        first = list(p.kevents(make_stream(data)))
        if st['edit'] == 'append-class':
            p.filter_class.append(c1)
        elif st['edit'] == 'remove-class':
            p.filter_class.append(c1)
            list(p.kevents(make_stream(data)))
            p.filter_class.pop(0)
        elif st['edit'] == 'append-subclass':
            p.filter_subclass.append(s0)
        else:
            p.filter_class.clear()
        second = list(p.kevents(make_stream(data)))
    except Exception as e:      # noqa
        __import__('vxlib.symx.core', fromlist=['x']).proxy_rejected(e)
        ctx.check('C12/edit/no-error', False, '%s: %s' % (type(e).__name__, e)); ctx.reach(); return
    classes, subclasses = list(p.filter_class), list(p.filter_subclass)
    for tag, out, cl, sc in (('first', first, [c0], []), ('second', second, classes, subclasses)):
        expected = [i for i in range(m) if bool(_spec_keep(specs[i], None, cl, sc))]
        ctx.check('C12/edit/%s-listing/count' % tag, len(out) == len(expected), '%d emitted, %d match the filter in force' % (len(out), len(expected)))
        for j in range(min(len(out), len(expected))):
            ctx.check('C12/edit/%s-listing/subsequence' % tag, _same(out[j], specs[expected[j]]))
    ctx.reach()


CH_TEMPLATE = '''from typing import List
from pykdebugparser.pykdebugparser import PyKdebugParser


def allowed(event_id: int, fc: List[int], fs: List[int], extra: List[int]) -> bool:
    """
    pre: 0 <= event_id < 2**32
    pre: len(fc) <= %(n)d and len(fs) <= %(n)d and len(extra) <= 1
    post: _ == (any((event_id >> 24) == c for c in fc) or any((event_id >> 24) == c for c in extra) or any((event_id >> 16) == s for s in fs))
    """
    p = PyKdebugParser()
    p.filter_class = fc
    p.filter_subclass = fs
    return bool(p._is_eventid_allowed(event_id, extra))


def twin(event_id: int, fc: List[int], fs: List[int], extra: List[int]) -> bool:
    """
    pre: 0 <= event_id < 2**32
    pre: len(fc) <= %(n)d and len(fs) <= %(n)d and len(extra) <= 1
    post: _ == False
    """
    p = PyKdebugParser()
    p.filter_class = fc
    p.filter_subclass = fs
    return bool(p._is_eventid_allowed(event_id, extra))
'''


def _crosshair(st):
    """-> ('confirmed', None) | ('counterexample', (event_id, fc, fs, extra)) | ('inconclusive', text)"""
    import ast, os, re, shutil, subprocess, sys, tempfile
    from vxlib.paths import REPO
    d = tempfile.mkdtemp(prefix='vxch')
    try:
        f = os.path.join(d, 'ch_c12.py')
        open(f, 'w').write(CH_TEMPLATE % {'n': st['maxlen']})
        env = dict(os.environ, PYTHONPATH=REPO, PYTHONDONTWRITEBYTECODE='1')
        try:
            r = subprocess.run([sys.executable, '-m', 'crosshair', 'check', '--report_all', '--per_condition_timeout',
                                str(st['timeout']), f], capture_output=True, text=True, env=env, timeout=4 * st['timeout'] + 60)
        except subprocess.TimeoutExpired:
            return 'inconclusive', 'crosshair did not finish'
        out = r.stdout + r.stderr
    finally:
        shutil.rmtree(d, ignore_errors=True)
    lines = {}
    for ln in out.splitlines():
        m = re.match(r'.*ch_c12\.py:(\d+): (\w+): (.*)', ln)
        if m:
            lines.setdefault('allowed' if int(m.group(1)) < 18 else 'twin', []).append((m.group(2), m.group(3)))
    tw = lines.get('twin', [])
    if not any(k == 'error' and 'when calling twin(' in t for k, t in tw):
        return 'inconclusive', 'vacuity twin was not refuted: %s' % (out.strip()[-300:],)
    al = lines.get('allowed', [])
    for k, t in al:
        if k == 'error':
            m = re.search(r'when calling allowed\((.*)\) \(which returns', t)
            if m:
                try:
                    args = ast.literal_eval('(' + m.group(1) + ',)')
                    return 'counterexample', args
                except Exception:       # noqa
                    pass
            return 'inconclusive', 'crosshair reports %s' % t[:300]
    if any(k == 'info' and 'Confirmed over all paths' in t for k, t in al):
        return 'confirmed', None
    return 'inconclusive', 'crosshair: %s' % (out.strip()[-300:],)


def run_crosshair(ctx, st):
    """CrossHair decides `_is_eventid_allowed` against the union specification for all 32-bit event ids and all lists of
    at most maxlen ints; a counterexample pins this harness's inputs and is judged (and replayed) like any other"""
    from pykdebugparser.pykdebugparser import PyKdebugParser
    from vxlib.symx import Unsupported
    n = st['maxlen']
    eid = ctx.int('event_id', 32)
    nfc, nfs, nex = ctx.int('nfc', 2), ctx.int('nfs', 2), ctx.int('nex', 1)
    fc = [ctx.int('c%d' % i) for i in range(n)]
    fs = [ctx.int('s%d' % i) for i in range(n)]
    ex = [ctx.int('x0')]
    if ctx.symbolic:
        verdict, info = _crosshair(st)
        if verdict == 'inconclusive':
            raise Unsupported('CrossHair gave no verdict: %s' % info)
        if verdict == 'confirmed':
            ctx.check('C12/crosshair/admission-is-the-union', True)
            ctx.reach()
            return
        e, a, b, c = info
        ctx.assume(And(eid == e, nfc == len(a), nfs == len(b), nex == len(c)))
        for i in range(n):
            ctx.assume(fc[i] == (a[i] if i < len(a) else 0))
            ctx.assume(fs[i] == (b[i] if i < len(b) else 0))
        ctx.assume(ex[0] == (c[0] if c else 0))
        eid, fc, fs, ex = e, list(a), list(b), list(c)
    else:
        fc, fs, ex = fc[:nfc], fs[:nfs], ex[:nex]
    p = PyKdebugParser()
    p.filter_class, p.filter_subclass = list(fc), list(fs)
    got = bool(p._is_eventid_allowed(eid, list(ex)))
    want = any((eid >> 24) == c for c in fc) or any((eid >> 24) == c for c in ex) or any((eid >> 16) == s for s in fs)
    ctx.check('C12/crosshair/admission-is-the-union', got == want,
              '_is_eventid_allowed(%#x, %r) with classes %r subclasses %r -> %r' % (eid, ex, fc, fs, got))
    ctx.reach()


def run(ctx, st):
    if st['kind'] == 'edit':
        return run_edit(ctx, st)
    if st['kind'] == 'crosshair':
        return run_crosshair(ctx, st)
    if st['kind'] == 'v2':
        return run_v2(ctx, st)
    return run_v3(ctx, st)


def run_v2(ctx, st):
    from pykdebugparser.pykdebugparser import PyKdebugParser
    m = st['m']
    records = [ctx.bytes('rec%d' % i, 64) for i in range(m)]
    ctx.assume(records[0][0] != 0)
    ftid = ctx.int('ftid') if st['tid'] else None
    classes = [ctx.int('c%d' % i, 32) for i in range(st['nc'])]
    subclasses = [ctx.int('s%d' % i, 32) for i in range(st['ns'])]
    p = PyKdebugParser()
    if ctx.symbolic:
        p.threads_pids, p.pids_names = SymMap(), SymMap()
    p.filter_tid = ftid
    p.filter_class = list(classes)
    p.filter_subclass = list(subclasses)
    data = K.v2_file([], 0, records)
    try:
        out = list(p.kevents(make_stream(data)))
    except Exception as e:      # noqa
        __import__('vxlib.symx.core', fromlist=['x']).proxy_rejected(e)
        if __import__('os').environ.get('VX_DEBUG'):
            __import__('traceback').print_exc()
        ctx.check('C12/v2/no-error', False, '%s: %s' % (type(e).__name__, e))
        ctx.reach()
        return
    specs = [K.Rec(r) for r in records]
    expected = [i for i in range(m) if bool(_spec_keep(specs[i], ftid, classes, subclasses))]
    ctx.observe('emitted', [[e.timestamp, e.tid, e.debugid] for e in out])
    ctx.check('C12/v2/count', len(out) == len(expected), '%d emitted, %d match the filter' % (len(out), len(expected)))
    for j in range(min(len(out), len(expected))):
        ctx.check('C12/v2/subsequence', _same(out[j], specs[expected[j]]), 'emitted #%d is not record %d' % (j, expected[j]))
    ctx.check('C12/v2/filters-untouched', And(len(p.filter_class) == len(classes), len(p.filter_subclass) == len(subclasses)))
    ctx.reach()


def run_v3(ctx, st):
    from oracle import v3 as V
    from pykdebugparser.pykdebugparser import PyKdebugParser
    from pykdebugparser.os_log_event import OsLogEvent
    recs = [ctx.bytes('rec%d' % i, 64) for i in range(2)]
    logs = V.sample_logs()
    if st.get('logs') == 'anonymous':
        logs = {'Events': [V.mandatory(1, 0x501, p=0, pid=V.LOG_PID), V.mandatory(4, 0x501), V.mandatory(4, 0x77),
                           V.mandatory(1, 0x502, pid=V.LOG_PID)]}
    data = V.v3_file(threads=[(0x77, 7, b'procA')], chunks=[[recs[0]], [recs[1]]],
                     blocks=[('strings', V.sample_strings()), ('logs', logs)])
    p = PyKdebugParser()
    if ctx.symbolic:
        p.threads_pids, p.pids_names = SymMap(), SymMap()
    specs = [K.Rec(r) for r in recs]
    if st['kind'] == 'v3events':
        classes = [ctx.int('c0', 32)]
        subclasses = [ctx.int('s0', 32)]
        p.filter_class, p.filter_subclass = list(classes), list(subclasses)
        try:
            out = list(p.kevents(make_stream(data)))
        except Exception as e:      # noqa
            __import__('vxlib.symx.core', fromlist=['x']).proxy_rejected(e)
            ctx.check('C12/v3/no-error', False, '%s: %s' % (type(e).__name__, e)); ctx.reach(); return
        ctx.check('C12/v3/no-log-in-events', not any(isinstance(e, OsLogEvent) for e in out))
        expected = [i for i in range(2) if bool(_spec_keep(specs[i], None, classes, subclasses))]
        ctx.check('C12/v3/count', len(out) == len(expected))
        for j in range(min(len(out), len(expected))):
            ctx.check('C12/v3/subsequence', _same(out[j], specs[expected[j]]))
        ctx.reach()
        return
    # log listing
    ftid = ctx.int('ftid') if st['tid'] else None
    proc = {None: None, 'name': V.LOG_PROCESS_NAME, 'pid': str(V.LOG_PID), 'other': 'nosuchprocess', '0': '0', '': ''}[st['proc']]
    p.filter_tid = ftid
    p.filter_process = proc
    try:
        out = list(p.os_log_events(make_stream(data)))
    except Exception as e:      # noqa
        __import__('vxlib.symx.core', fromlist=['x']).proxy_rejected(e)
        ctx.check('C12/v3/logs/no-error', False, '%s: %s' % (type(e).__name__, e)); ctx.reach(); return
    ctx.check('C12/v3/logs/no-event-in-logs', all(isinstance(e, OsLogEvent) for e in out))
    raw = logs['Events']
    strings = V.sample_strings_inverse()
    exp = []
    for i, ev in enumerate(raw):
        keep = True
        if ftid is not None:
            keep = And(keep, ftid == ev['tid'])
        if proc is not None:
            pname = strings[ev['p']] if 'p' in ev else ''
            keep = And(keep, proc in (pname, str(ev.get('pid', 0))))
        if bool(keep):
            exp.append(i)
    ctx.check('C12/v3/logs/count', len(out) == len(exp), '%d logs listed, %d match' % (len(out), len(exp)))
    for j in range(min(len(out), len(exp))):
        ev = raw[exp[j]]
        ctx.check('C12/v3/logs/subsequence', And(out[j].thread_identifier == ev['tid'],
                                                 out[j].composed_message == strings[ev['cm']]))
    ctx.reach()
