"""C19 - code-table text maps every 'hex-id name' line; a supplied table is honoured."""
import itertools
from oracle import kdebug as K
from vxlib import sweep
from vxlib.symx import And, Or, Not, SymMap, SymInt, Implies, OutOfDomain
from vxlib.symx.stream import make_stream

PROPERTY = 'C19'
STUBS = ['SymStr: str of 8-bit character terms with models of splitlines() and split() (validated against the real str '
         'methods on seeded strings every run)', 'int(s, 16) in pykdebugparser.trace_codes: positional hex value with '
         'if-then-else digits (injected as a module global)', 'the resulting dict is a real dict; every key is a symbolic '
         'int, resolved by solver-decided equality (collide-hash policy)', 'SymMap as the caller-supplied table']
ASSUMPTIONS = ['characters are ASCII (< 0x80); the character class of each position is fixed by the structure (hex digit / '
               'separator / name / trailing text / terminator), the character itself is free inside its class']
OUTSIDE = ['more than 3 lines; ids longer than 8 hex digits; names longer than 3 characters; non-ASCII text',
           'lines that do not have the form hex-id name [anything]']
EXPLORE_OPTS = {'max_paths': 60000, 'max_seconds': 900, 'hash_collide': True}


def setup(symbolic):
    if symbolic:
        from vxlib.symx import shims, loader
        loader.install()
        shims.install()


def bounds(tier):
    return {'lines': '1..%d' % (2 if tier == 'quick' else 3), 'id': "optional 0x / 0X prefix + 1..8 hex digits, each digit free in "
            "[0-9a-fA-F]", 'name': '1..3 free non-whitespace printable ASCII characters', 'separator': '1..2 characters free in '
            '{space, tab}', 'trailing text': '0..%d free printable / space / tab characters' % (2 if tier == 'quick' else 4),
            'terminator': "'\\n', '\\r\\n' or none on the last line",
            'supplied table': 'three free pairwise distinct 32-bit ids -> a decodable name, VFS_LOOKUP, an undecodable name; '
                              'event ids free 32-bit'}


def structures(tier):
    sts = []
    line_shapes = []
    prefixes = ['', '0x', '0X']
    if tier == 'quick':
        shapes1 = [(p, nd, nn, ns, nt, term) for p in prefixes for nd in (1, 8) for nn in (1, 3) for ns in (1,) for nt in (0, 2)
                   for term in ('\n',)]
        shapes1 += [('0x', 7, 2, 2, 1, '\r\n'), ('', 3, 1, 1, 0, '')]
    else:
        shapes1 = [(p, nd, nn, ns, nt, term) for p in prefixes for nd in (1, 2, 7, 8) for nn in (1, 2, 3) for ns in (1, 2)
                   for nt in (0, 1, 4) for term in ('\n', '\r\n')]
    for sh in shapes1:
        sts.append({'kind': 'text', 'lines': [list(sh)]})
    two = [('0x', 7, 2, 1, 0, '\n'), ('', 7, 1, 1, 1, '\n'), ('0X', 7, 1, 2, 0, '\r\n')]
    for a, b in itertools.product(two, repeat=2):
        sts.append({'kind': 'text', 'lines': [list(a), list(b)]})
    if tier == 'thorough':
        for a, b, c in itertools.product(two[:2], repeat=3):
            sts.append({'kind': 'text', 'lines': [list(a), list(b), list(c)]})
    for q in (0, 1, 2, 3):
        sts.append({'kind': 'listing', 'q': q})
    sts.append({'kind': 'decode'})
    sts.append({'kind': 'decode-string'})
    sts.append({'kind': 'decode-sequence'})
    sts.append({'kind': 'decode-sequence', 'same_parser': True})
    sts.append({'kind': 'decode-sequence', 'same_parser': True, 'first': 'bundled'})
    sts.append({'kind': 'decode-same-name'})
    sts.append({'kind': 'text-representatives'})
    return sts


def weight(st):
    return len(st.get('lines', [])) * 5 + 1


def _chars(ctx, name, n, cls):
    t = ctx.bytes(name, n)
    out = []
    for i in range(n):
        c = t[i]
        if cls == 'hex':
            ctx.assume(Or(And(c >= 0x30, c <= 0x39), And(c >= 0x61, c <= 0x66), And(c >= 0x41, c <= 0x46)))
        elif cls == 'sep':
            ctx.assume(Or(c == 0x20, c == 0x09))
        elif cls == 'name':
            ctx.assume(And(c >= 0x21, c <= 0x7e))
        elif cls == 'trail':
            ctx.assume(Or(And(c >= 0x20, c <= 0x7e), c == 0x09))
        out.append(c)
    return t


def run(ctx, st):
    if st['kind'] == 'decode-string':
        return run_decode_string(ctx, st)
    return {'text': run_text, 'listing': run_listing, 'decode': run_decode, 'decode-sequence': run_decode_sequence,
            'text-representatives': run_representatives, 'decode-same-name': run_same_name}[st['kind']](ctx, st)


def run_same_name(ctx, st):
    """the supplied table gives the decodable name to two different ids: events under either id are decoded"""
    k0, k1 = ctx.int('k0', 32), ctx.int('k1', 32)
    ctx.assume(And((k0 & 3) == 0, (k1 & 3) == 0, k0 != k1))
    if ctx.symbolic:
        t = SymMap(name='codes')
        t._set(k0, 'BSC_getpid')
        t._set(k1, 'BSC_getpid')
    else:
        t = {k0: 'BSC_getpid', k1: 'BSC_getpid'}
    recs = [K.pack_rec(1001, [1, 2, 3, 4], 0x1d3, k0 | 1), K.pack_rec(1002, [0, 0x41, 0, 0], 0x1d3, k0 | 2),
            K.pack_rec(1003, [1, 2, 3, 4], 0x1d3, k1 | 1), K.pack_rec(1004, [0, 0x42, 0, 0], 0x1d3, k1 | 2)]
    try:
        out = list(_parser(ctx).traces(make_stream(K.v2_file([], 0, recs)), t))
    except Exception as ex:     # noqa
        __import__('vxlib.symx.core', fromlist=['x']).proxy_rejected(ex)
        ctx.check('C19/same-name/no-error', False, '%s: %s' % (type(ex).__name__, ex)); ctx.reach(); return
    ctx.check('C19/same-name/both-ids-decoded', len(out) == 2 and all(type(x).__name__ == 'BscGetpid' for x in out),
              '%d traces for two windows whose ids both map to the decodable name' % len(out))
    ctx.reach()



REPRESENTATIVES = [
    ('0x40c0548\tBSC_stat64', {0x40c0548: 'BSC_stat64'}),
    ('40c0548 BSC_stat64\n', {0x40c0548: 'BSC_stat64'}),
    ('0X40C0548  BSC_stat64   trailing words here\r\n25010014\tPERF_THD_CSwitch\n', {0x40c0548: 'BSC_stat64', 0x25010014: 'PERF_THD_CSwitch'}),
    ('0x1 A\n0x1 B\n1 C\n', {1: 'C'}),
    ('ABCDEF12 x\nabcdef12 y\n0xAbCdEf12 z #comment\n', {0xabcdef12: 'z'}),
    ('0x7\tseven\t\t#Params: a b\n0x8 eight', {7: 'seven', 8: 'eight'}),
    ('0x5 zeta\n0x5 alpha\n', {5: 'alpha'}),
    ('0x40c000c\tBSC_read\n40C000C BSC_pread\n0x40c0010 BSC_write\n', {0x40c000c: 'BSC_pread', 0x40c0010: 'BSC_write'}),
    ('', {}),
]


def run_representatives(ctx, st):
    """concrete texts through the untouched function: the forms the symbolic structures quantify over, so that an
    implementation the proxies cannot carry (e.g. one built on regular expressions) is still exercised"""
    import pykdebugparser.trace_codes as tc
    for i, (text, want) in enumerate(REPRESENTATIVES):
        try:
            got = tc.from_trace_codes_text(text)
        except Exception as e:      # noqa
            __import__('vxlib.symx.core', fromlist=['x']).proxy_rejected(e)
            ctx.check('C19/text/representative-%d' % i, False, '%r raised %s: %s' % (text, type(e).__name__, e))
            continue
        ctx.check('C19/text/representative-%d' % i, dict(got) == want, '%r -> %r, expected %r' % (text, dict(got), want))
        # what a caller does to the table it got does not reach a later parse of the same text
        try:
            got[0x2b5a0010] = 'BSC_read'
            for k in list(got)[:1]:
                got[k] = 'renamed'
            again = tc.from_trace_codes_text(text)
            ctx.check('C19/text/same-text-again-%d' % i, dict(again) == want, '%r parsed again -> %r' % (text, dict(again)))
        except Exception as e:      # noqa
            __import__('vxlib.symx.core', fromlist=['x']).proxy_rejected(e)
            ctx.check('C19/text/same-text-again-%d' % i, False, '%s: %s' % (type(e).__name__, e))
    ctx.reach()


def run_decode_sequence(ctx, st):
    """two requests under two different supplied tables in one process: the second table is honoured as well"""
    ks, names, t = _table(ctx)
    e = ctx.int('e', 32)
    ctx.assume((e & 3) == 0)
    for k in ks:
        ctx.assume(e != k)
    recs = [K.pack_rec(1001, [1, 2, 3, 4], 0x1d3, e | 1), K.pack_rec(1002, [0, 0x41, 0, 0], 0x1d3, e | 2)]
    # first request: a table that names e as the decodable code; second: the table that does not know e
    if ctx.symbolic:
        t1 = SymMap(name='codes1')
        t1._set(e, 'BSC_getpid')
    else:
        t1 = {e: 'BSC_getpid'}
    p = _parser(ctx)
    try:
        if st.get('first') == 'bundled':
            # first request with the bundled table (e is assumed to be none of the ids it decodes), then the supplied one
            out1 = list(p.traces(make_stream(K.v2_file([], 0, [K.pack_rec(1001, [1, 2, 3, 4], 0x1d3, 0x40c0050 | 1),
                                                                K.pack_rec(1002, [0, 0x41, 0, 0], 0x1d3, 0x40c0050 | 2)]))))
            p2 = p
        else:
            out1 = list(p.traces(make_stream(K.v2_file([], 0, recs)), t1))
            p2 = p if st.get('same_parser') else _parser(ctx)
        out2 = list(p2.traces(make_stream(K.v2_file([], 0, recs)), t))
        p3 = p2 if st.get('same_parser') else _parser(ctx)
        for c in ('show_timestamp', 'show_func_qual', 'show_tid', 'show_process', 'show_args'):
            setattr(p3, c, False)
        lines = list(p3.formatted_kevents(make_stream(K.v2_file([], 0, recs[:1])), t))
    except Exception as ex:     # noqa
        __import__('vxlib.symx.core', fromlist=['x']).proxy_rejected(ex)
        ctx.check('C19/sequence/no-error', False, '%s: %s' % (type(ex).__name__, ex)); ctx.reach(); return
    # an empty supplied table is a table: nothing is named, nothing is decoded
    try:
        pe = _parser(ctx)
        for c in ('show_timestamp', 'show_func_qual', 'show_tid', 'show_process', 'show_args'):
            setattr(pe, c, False)
        # (records under an id the bundled table decodes: 0x40c0050 BSC_getpid)
        brecs = [K.pack_rec(1001, [1, 2, 3, 4], 0x1d3, 0x40c0050 | 1), K.pack_rec(1002, [0, 0x41, 0, 0], 0x1d3, 0x40c0050 | 2)]
        lines_e = list(pe.formatted_kevents(make_stream(K.v2_file([], 0, brecs[:1])), {}))
        out_e = list(_parser(ctx).traces(make_stream(K.v2_file([], 0, brecs)), {}))
    except Exception as ex:     # noqa
        __import__('vxlib.symx.core', fromlist=['x']).proxy_rejected(ex)
        ctx.check('C19/sequence/empty-table', False, '%s: %s' % (type(ex).__name__, ex)); ctx.reach(); return
    ctx.check('C19/sequence/empty-table', len(out_e) == 0 and len(lines_e) == 1 and str(lines_e[0]).strip() == hex(0x40c0050),
              'an empty supplied table was replaced: %d traces decoded, listing %r' % (len(out_e), lines_e[:1]))
    ctx.check('C19/sequence/first-table-honoured', len(out1) == 1 and type(out1[0]).__name__ == 'BscGetpid')
    ctx.check('C19/sequence/second-table-honoured', len(out2) == 0, 'an id absent from the second table was decoded (%d traces)' % len(out2))
    ctx.check('C19/sequence/listing-uses-the-table-given', len(lines) == 1 and not any(c.isalpha() and c not in 'abcdefx' for c in str(lines[0]).strip()) if not ctx.symbolic else len(lines) == 1,
              'an id absent from the supplied table is listed as %r' % (lines[:1],))
    ctx.reach()



def _hexval(ch):
    """digit value of one hex character (int or SymInt)"""
    from vxlib.symx import Ite
    return Ite(And(ch >= 0x30, ch <= 0x39), ch - 0x30, Ite(And(ch >= 0x61, ch <= 0x66), ch - 0x61 + 10, ch - 0x41 + 10))


def run_text(ctx, st):
    import pykdebugparser.trace_codes as tc
    lines = []
    pieces = []          # for building the text: str / bytes-like
    for i, (prefix, nd, nn, ns, nt, term) in enumerate(st['lines']):
        digs = _chars(ctx, 'd%d' % i, nd, 'hex')
        sep = _chars(ctx, 's%d' % i, ns, 'sep')
        name = _chars(ctx, 'n%d' % i, nn, 'name')
        trail = _chars(ctx, 't%d' % i, nt, 'trail') if nt else b''
        parts = [prefix.encode(), digs, sep, name]
        if nt:
            parts += [b' ', trail]
        parts.append(term.encode())
        pieces.append(parts)
        val = 0
        for k in range(nd):
            val = (val << 4) | _hexval(digs[k])
        lines.append((val, name))
    if ctx.symbolic:
        from vxlib.symx.symstr import SymStr, sym_int
        items = []
        for parts in pieces:
            for p in parts:
                items += list(p.items) if hasattr(p, 'items') else list(p)
        text = SymStr.make(items)
        saved = tc.__dict__.get('int', None)
        tc.int = sym_int
    else:
        text = b''.join(bytes(p) for parts in pieces for p in parts).decode('ascii')
    try:
        try:
            table = tc.from_trace_codes_text(text)
        except Exception as e:      # noqa
            __import__('vxlib.symx.core', fromlist=['x']).proxy_rejected(e)
            ctx.check('C19/text/parses', False, '%s: %s' % (type(e).__name__, e)); ctx.reach(); return
    finally:
        if ctx.symbolic:
            if saved is None:
                del tc.int
            else:
                tc.int = saved
    ctx.check('C19/text/parses', True)
    items_ = list(table.items())
    ctx.check('C19/text/keys-are-ints', all(isinstance(k, (int, SymInt)) for k, _ in items_))
    # last-wins fold of the lines
    for i, (val, name) in enumerate(lines):
        j = i
        for k in range(i + 1, len(lines)):
            if bool(lines[k][0] == val):
                j = k
        want = lines[j][1]
        got = None
        for kk, vv in items_:
            if bool(kk == val):
                got = vv
        ctx.check('C19/text/pair', got is not None and _name_eq(ctx, got, want), 'line %d: id maps to another name / is missing' % i)
    distinct = 0
    for i, (val, _) in enumerate(lines):
        if not any(bool(lines[k][0] == val) for k in range(i)):
            distinct += 1
    ctx.check('C19/text/nothing-else', len(items_) == distinct, '%d entries for %d distinct ids' % (len(items_), distinct))
    ctx.reach()


def _name_eq(ctx, got, want):
    if ctx.symbolic:
        w = list(want.items) if hasattr(want, 'items') else list(want)
        from vxlib.symx.symstr import SymStr
        if isinstance(got, str):
            got = SymStr([ord(c) for c in got])
        from vxlib.symx.values import bytes_items_eq
        return bytes_items_eq(list(got.items), w)
    return got == bytes(want).decode('ascii')


def _table(ctx, aligned=True):
    """aligned=False: the table's ids are free 32-bit values, also ones with qualifier bits set (they name no event)"""
    ks = [ctx.int('k%d' % i, 32) for i in range(3)]
    for i in range(3):
        if aligned:
            ctx.assume((ks[i] & 3) == 0)
        for j in range(i):
            ctx.assume(ks[i] != ks[j])
    names = ['BSC_getpid', 'VFS_LOOKUP', 'some_undecoded_name']
    if ctx.symbolic:
        t = SymMap(name='codes')
        for k, n in zip(ks, names):
            t._set(k, n)
    else:
        t = dict(zip(ks, names))
    return ks, names, t


def _parser(ctx):
    from pykdebugparser.pykdebugparser import PyKdebugParser
    p = PyKdebugParser()
    p.color = False
    if ctx.symbolic:
        p.threads_pids, p.pids_names = SymMap(), SymMap()
    return p


def run_listing(ctx, st):
    ks, names, t = _table(ctx, aligned=False)
    e = ctx.int('e', 32)
    ctx.assume((e & 3) == 0)
    rec = K.pack_rec(1001, [1, 2, 3, 4], 0x1d3, e | st['q'])
    p = _parser(ctx)
    for c in ('show_timestamp', 'show_func_qual', 'show_tid', 'show_process', 'show_args'):
        setattr(p, c, False)
    lines = list(p.formatted_kevents(make_stream(K.v2_file([], 0, [rec])), t))
    ctx.check('C19/listing/one-line', len(lines) == 1)
    if len(lines) == 1:
        ln = lines[0]
        hit = [i for i in range(3) if bool(ks[i] == e)]
        if ctx.symbolic:
            pieces = ctx.template(ln)
            lits = ''.join(x for x in pieces if isinstance(x, str)).strip()
            atoms = [x for x in pieces if not isinstance(x, str)]
            from vxlib.symx.values import mkb
            from vxlib.symx import term
            okhex = len(atoms) == 1 and atoms[0].kind == 'x' and mkb(atoms[0].term == term(e))
            if hit:
                ctx.check('C19/listing/name-of-the-supplied-table', And(okhex, lits == names[hit[0]] + ' ()'), lits)
            else:
                ctx.check('C19/listing/bare-hex-for-absent-id', And(okhex, lits == ''), lits)
        else:
            s = ln.strip()
            if hit:
                ctx.check('C19/listing/name-of-the-supplied-table', s == '%s (%s)' % (names[hit[0]], hex(e)), s)
            else:
                ctx.check('C19/listing/bare-hex-for-absent-id', s == hex(e), s)
    ctx.reach()


def run_decode_string(ctx, st):
    """the table gives a kernel trace-string name to a free id: records under that id are paired and decoded as that
    string record, and an unrelated record of the thread in between is not part of the string"""
    k, u = ctx.int('k', 32), ctx.int('u', 32)
    ctx.assume(And((k & 3) == 0, (u & 3) == 0, k != u))
    ta, tb = ctx.bytes('ta', 3), ctx.bytes('tb', 3)
    for t_ in (ta, tb):
        for i in range(3):
            ctx.assume(And(t_[i] != 0, t_[i] < 0x80))
    if ctx.symbolic:
        t = SymMap(name='codes')
        t._set(k, 'TRACE_STRING_THREADNAME')
    else:
        t = {k: 'TRACE_STRING_THREADNAME'}
    recs = [K.pack_rec_data(1001, ta + bytes(29), 0x1d3, k | 1), K.pack_rec(1002, [0x41424344, 2, 3, 4], 0x1d3, u),
            K.pack_rec_data(1003, tb + bytes(29), 0x1d3, k | 2)]
    try:
        out = list(_parser(ctx).traces(make_stream(K.v2_file([], 0, recs)), t))
    except Exception as ex:     # noqa
        __import__('vxlib.symx.core', fromlist=['x']).proxy_rejected(ex)
        ctx.check('C19/decode-string/no-error', False, '%s: %s' % (type(ex).__name__, ex)); ctx.reach(); return
    L = 'C19/decode-string'
    ctx.check(L + '/decoded-under-the-table-id', len(out) == 1 and type(out[0]).__name__ == 'TraceStringThreadname', '%d traces' % len(out))
    if len(out) == 1 and type(out[0]).__name__ == 'TraceStringThreadname':
        from vxlib.checks import c08
        ctx.check(L + '/string-is-its-own-records', c08._same_text(ctx, out[0].name, list(ta.items if hasattr(ta, 'items') else ta) + list(tb.items if hasattr(tb, 'items') else tb)),
                  'the name is not the text of the two records under the table id')
    ctx.reach()


def run_decode(ctx, st):
    ks, names, t = _table(ctx)
    e = ctx.int('e', 32)
    ctx.assume((e & 3) == 0)
    recs = [K.pack_rec(1001, [1, 2, 3, 4], 0x1d3, e | 1), K.pack_rec(1002, [0, 0x41, 0, 0], 0x1d3, e | 2)]
    p = _parser(ctx)
    try:
        out = list(p.traces(make_stream(K.v2_file([], 0, recs)), t))
    except Exception as ex:     # noqa
        __import__('vxlib.symx.core', fromlist=['x']).proxy_rejected(ex)
        ctx.check('C19/decode/no-error', False, '%s: %s' % (type(ex).__name__, ex)); ctx.reach(); return
    hit = [i for i in range(3) if bool(ks[i] == e)]
    if hit and hit[0] == 0:
        ctx.check('C19/decode/decodable-name-under-any-id', len(out) == 1 and type(out[0]).__name__ == 'BscGetpid',
                  '%d traces' % len(out))
    elif hit and hit[0] == 1:
        ctx.check('C19/decode/lookup-name-under-any-id', len(out) <= 1 and all(type(x).__name__ == 'VfsLookup' for x in out))
    else:
        ctx.check('C19/decode/absent-or-undecodable-id-never-decoded', len(out) == 0, '%d traces' % len(out))
    ctx.reach()
