"""C18 - output is a function of the dump, not of the host operating system.

Product run: the same decoder window is executed on platform A (Darwin's tables where oracle/darwin.py has them, the
running host's value for everything else) and, for each host attribute the run consulted, again with that one
attribute swapped for platform B's (Linux x86_64 tables from oracle/linux.py, or a perturbed copy of the host's
value); z3 decides whether the two renderings can differ.  'The host' as the decoders see it is a set of proxy
modules (errno, signal, socket, os, sys, stat, fcntl, resource, platform, locale, time) installed in place of the
real modules in the globals of the repo's modules; every attribute read through them is recorded with its call site.
"""
import enum
import sys
import types
import z3
from vxlib import sweep
from vxlib.symx import And, Or, Not, Atom, SymTable, SymInt, OutOfDomain
from vxlib.symx.values import mkb, W
from vxlib.paths import REPO_PREFIX

PROPERTY = 'C18'
STUBS = ['struct.unpack model', 'enum lookup forks over the members of the (swapped) enum class',
         'errno table as SymTable built from the platform table', 'atoms for rendered ints', 'AST merge rewrites',
         'host modules replaced by recording proxy modules in the globals of the repo modules']
ASSUMPTIONS = ['a host platform is what the decoders can read through the modules errno, signal, socket, os, sys, stat, fcntl, '
               'resource, platform, locale, time (module globals of the repo bound to those modules, or to objects taken from them)',
               'two platforms are compared: Darwin (xnu headers) vs Linux x86_64 for error names, signals, address families, '
               'socket types and SOL_SOCKET; for any other host attribute consulted, the host\'s value vs a perturbed copy '
               '(enum values rotated, ints changed, sys.maxsize = 2^31-1, strings replaced, function results tagged)']
OUTSIDE = ['host dependence through channels other than those modules (C extensions, environment variables read elsewhere)',
           'platforms other than the two compared']
EXPLORE_OPTS = {'max_paths': 30000, 'max_seconds': 900}
weight = sweep.weight
HOST_MODULES = ('errno', 'signal', 'socket', 'os', 'sys', 'stat', 'fcntl', 'resource', 'platform', 'locale', 'time')
KIND_NAMES = {('errno', 'errorcode'): 'errno', ('signal', 'Signals'): 'signal', ('socket', 'AddressFamily'): 'family',
              ('socket', 'SocketKind'): 'socktype', ('socket', 'SOL_SOCKET'): 'sol_socket'}
_state = {'used': set(), 'overrides': {}, 'installed': False}


def setup(symbolic):
    # the import rewrite is needed in replays as well: it is what lets host modules be swapped at import time
    install_proxies()
    if symbolic:
        from vxlib.symx import shims
        shims.install()


def bounds(tier):
    return {'decoders': 'every BSC_*/MSC_* decoder', 'words': 'a0..a3, r0..r3 free 64-bit (all error codes, signal numbers, '
            'families, socket types, option levels)', 'platforms': 'A vs B, one consulted host attribute swapped at a time',
            'window': 'START, END, no lookups'}


SOCKETISH = ('sock', 'bind', 'connect', 'listen', 'accept', 'send', 'recv', 'shutdown', 'peer', 'close', 'fcntl', 'ioctl')


def structures(tier):
    sts = [{'name': n} for n in sweep.decoder_names()]
    # calls on a descriptor after the call that created it was decoded by the same parser (state kept per descriptor)
    for n in sweep.decoder_names():
        if any(k in n for k in SOCKETISH) and (tier == 'thorough' or sweep.weight({'name': n}) == 1 or 'sockopt' in n):
            sts.append({'name': n, 'after': 'BSC_socket'})
            if tier == 'thorough':
                sts.append({'name': n, 'after': 'BSC_open'})
    # the same decoder on other words first (tables completed or memoised on first use)
    # (decoders with hundreds of argument classes are left out in both tiers: the product of two such windows does not
    # finish - socket_delegate after socket_delegate ran out of a 900 s budget at 21 000 paths)
    for n in sweep.decoder_names():
        if sweep.weight({'name': n}) == 1:
            sts.append({'name': n, 'after': n})
    return sts


def _site():
    f = sys._getframe(2)
    while f is not None and not f.f_code.co_filename.startswith(REPO_PREFIX):
        f = f.f_back
    return f.f_code.co_name if f is not None else '?'


def kind_of(mod, attr):
    return KIND_NAMES.get((mod, attr), '%s.%s' % (mod, attr))


class RecTable(SymTable):
    """platform table (membership = union of intervals, name = lookup atom); records being consulted"""
    sx_name = 'errno'
    sx_small = 0

    def _rec(self):
        k = getattr(self, '_sx_kind', None)
        if k is not None:
            _state['used'].add((k, _site()))

    def __contains__(self, k):
        self._rec()
        return SymTable.__contains__(self, k)

    def __getitem__(self, k):
        self._rec()
        return SymTable.__getitem__(self, k)

    def get(self, k, d=None):
        self._rec()
        return SymTable.get(self, k, d)


class RecInt(int):
    """host integer constant: records being combined with a symbolic value"""

    def _sx_on_use(self):
        _state['used'].add((self._sx_kind, _site()))


class HostModule(types.ModuleType):
    """stands for a host module in the globals of the repo's modules"""

    def __init__(self, real):
        super().__init__(real.__name__)
        self.__dict__['_real'] = real

    def __getattr__(self, name):
        real = self.__dict__['_real']
        val = getattr(real, name)
        if name.startswith('__'):
            return val
        kind = kind_of(real.__name__, name)
        _state['used'].add((kind, _site()))
        ov = _state['overrides']
        if kind in ov:
            val = ov[kind]
        else:
            val = platform_a(real.__name__, name, val)
        if isinstance(val, type) and issubclass(val, enum.Enum):
            _state.setdefault('class_kind', {})[id(val)] = kind
        return wrap(kind, val)


def wrap(kind, val):
    if isinstance(val, bool):
        return val
    if isinstance(val, int) and not isinstance(val, enum.Enum):
        r = RecInt(val)
        r._sx_kind = kind
        return r
    if isinstance(val, dict) and not isinstance(val, RecTable):
        t = RecTable(val)
        t._sx_kind = kind
        return t
    if isinstance(val, (types.BuiltinFunctionType, types.FunctionType)):
        return _host_call(val)
    return val


def _host_call(f):
    """host functions are C code: symbolic int arguments are concretised (all values of a small domain, otherwise a
    sample - the structure is then reported incomplete)"""
    def call(*a, **kw):
        from vxlib.symx.values import SymInt
        a = [x.concretize('argument of host function %s' % getattr(f, '__name__', '?')) if isinstance(x, SymInt) else x for x in a]
        kw = {k: (x.concretize('argument of host function') if isinstance(x, SymInt) else x) for k, x in kw.items()}
        return f(*a, **kw)
    call.__name__ = getattr(f, '__name__', 'host')
    return call


def _mk_enum(name, members, base=enum.IntEnum):
    return base(name, sorted(members.items(), key=lambda kv: (kv[1], kv[0])))


def _tables():
    if 'tables' not in _state:
        from oracle import darwin, linux
        out = {}
        for nm, mod in (('darwin', darwin), ('linux', linux)):
            out[nm] = {'errno': dict(mod.ERRNO), 'signal': _mk_enum('Signals', mod.SIGNALS),
                       'family': _mk_enum('AddressFamily', mod.AF), 'socktype': _mk_enum('SocketKind', mod.SOCK),
                       'sol_socket': mod.SOL_SOCKET}
        _state['tables'] = out
    return _state['tables']


def platform_a(mod, attr, host_value):
    k = KIND_NAMES.get((mod, attr))
    if k is not None:
        return _tables()['darwin'][k]
    if mod == 'errno' and attr == 'errorcode':
        return _tables()['darwin']['errno']
    return host_value


_perturbed = {}


def platform_b(kind, a_value):
    """the value platform B has for a host attribute"""
    if kind in _tables()['linux']:
        return _tables()['linux'][kind]
    key = (kind, id(a_value))
    if key in _perturbed:
        return _perturbed[key]
    v = a_value
    if isinstance(v, type) and issubclass(v, enum.Enum):
        members = [(n, m.value) for n, m in v.__members__.items() if isinstance(m.value, int)]
        vals = sorted({x for _, x in members})
        nxt = {x: vals[(i + 1) % len(vals)] for i, x in enumerate(vals)} if len(vals) > 1 else {x: x + 1 for x in vals}
        base = enum.IntFlag if issubclass(v, enum.IntFlag) else enum.IntEnum
        out = base(v.__name__, [(n, nxt[x]) for n, x in members])
    elif isinstance(v, bool):
        out = not v
    elif isinstance(v, int):
        out = (2 ** 31 - 1) if kind == 'sys.maxsize' else int(v) + 1
    elif isinstance(v, str):
        out = {'sys.platform': 'linux' if v != 'linux' else 'darwin', 'sys.byteorder': 'big' if v != 'big' else 'little',
               'os.name': 'nt' if v != 'nt' else 'posix'}.get(kind, v + '-other-host')
    elif isinstance(v, dict):
        ks = sorted(v, key=repr)
        out = {k: v[ks[(i + 1) % len(ks)]] for i, k in enumerate(ks)} if len(ks) > 1 else {}
    elif callable(v):
        def out(*a, _f=v, **kw):
            r = _f(*a, **kw)
            if isinstance(r, str):
                return 'other-host:' + r
            if isinstance(r, bool):
                return not r
            if isinstance(r, int):
                return r + 1
            return r
    else:
        out = v
    _perturbed[key] = out
    return out


def _provider(name, real):
    """what `import <host module>` / `from <host module> import x` give the repo's modules (loader rewrite)"""
    px = _state.setdefault('proxies', {})
    if name not in px:
        px[name] = HostModule(real)
    return px[name]


def install_proxies():
    """register the proxy provider; must happen before the repo is imported"""
    if _state['installed']:
        return
    _state['installed'] = True
    import importlib
    from vxlib.symx import loader
    loader.install()
    loader.host_provider[0] = _provider
    hosts = {}
    for m in HOST_MODULES:
        try:
            hosts[m] = importlib.import_module(m)
        except ImportError:
            pass
    _state['hosts'] = hosts
    _state['copies'] = {}


def _purge():
    out = {}
    for n in list(sys.modules):
        if n == 'pykdebugparser' or n.startswith('pykdebugparser.'):
            out[n] = sys.modules.pop(n)
    return out


class _Copy:
    """a copy of the repo's modules imported under a given set of host overrides"""

    def __init__(self, overrides):
        self.overrides = overrides
        saved = _purge()
        prev_used, prev_ov = _state['used'], _state['overrides']
        _state['used'] = set()
        _state['overrides'] = overrides
        try:
            import pykdebugparser.traces_parser      # noqa
            self.modules = _purge()
        finally:
            _purge()
            sys.modules.update(saved)
            self.import_used = set(_state['used'])
            _state['used'], _state['overrides'] = prev_used, prev_ov
        # process-level state of this copy as it is right after import (restored whenever the copy is entered)
        self.snap = sweep.snapshot_modules([m for m in self.modules.values() if m is not None])
        # which from-imported host objects can be recognised at run time (classes, tables), and as what kind
        self.objects = {}
        for m in self.modules.values():
            for gname, gval in vars(m).items():
                k = getattr(gval, '_sx_kind', None) if isinstance(gval, (RecTable, RecInt)) else _state.get('class_kind', {}).get(id(gval))
                if k is not None:
                    self.objects[id(gval)] = k

    def __enter__(self):
        self.saved = _purge()
        sys.modules.update(self.modules)
        sweep.restore_modules(self.snap)
        self.prev_ov = _state['overrides']
        _state['overrides'] = self.overrides
        return self

    def __exit__(self, *a):
        _purge()
        sys.modules.update(self.saved)
        _state['overrides'] = self.prev_ov


def copy_for(overrides):
    key = tuple(sorted((k, id(v)) for k, v in overrides.items()))
    c = _state['copies'].get(key)
    if c is None:
        c = _state['copies'][key] = _Copy(overrides)
    return c


def _window(ctx, name, a, r, overrides, prior=()):
    install_proxies()
    cp = copy_for(overrides)
    _state['used'] = set()
    real_call, real_iter = enum.EnumType.__call__, enum.EnumType.__iter__
    class_kind = _state.setdefault('class_kind', {})

    def rec_call(cls, value, *aa, **kw):
        k = class_kind.get(id(cls))
        if k is not None and not aa and not kw:
            _state['used'].add((k, _site()))
        return real_call(cls, value, *aa, **kw)

    def rec_iter(cls):
        k = class_kind.get(id(cls))
        if k is not None:
            _state['used'].add((k, _site()))
        return real_iter(cls)
    enum.EnumType.__call__ = rec_call
    enum.EnumType.__iter__ = rec_iter
    try:
        with cp:
            o = sweep.run_window(ctx, name, a, r, prior=prior)
    finally:
        enum.EnumType.__call__ = real_call
        enum.EnumType.__iter__ = real_iter
    used = set(_state['used'])
    # host values consumed while the modules were being imported (tables built at import time) cannot be attributed to a
    # decoder: they count as consulted by every decoder
    untracked = {(k, s) for k, s in copy_for({}).import_used if not _trackable(k)}
    return o, used | untracked


def _trackable(kind):
    """a host object bound by name at import whose later use is observable (an enum class or a table)"""
    v = None
    try:
        v = _a_value(kind)
    except Exception:       # noqa
        return False
    return isinstance(v, (type, dict))


def _a_value(kind):
    """platform A's value of a kind (platform B's is derived from it)"""
    for (m, attr), k in KIND_NAMES.items():
        if k == kind:
            return _tables()['darwin'][k]
    m, attr = kind.split('.', 1)
    return getattr(_state['hosts'][m], attr)


def _lookup_differs(x, y):
    t1, t2 = dict(x.extra), dict(y.extra)
    diff = [k for k in set(t1) | set(t2) if t1.get(k) != t2.get(k)]
    if not diff:
        return False
    return Or(*[mkb(x.term == k) for k in diff])


def _texts_equal(p1, p2):
    if len(p1) != len(p2):
        return False
    conds = []
    for x, y in zip(p1, p2):
        if isinstance(x, Atom) and isinstance(y, Atom) and x.kind == y.kind == 'lookup' and x.extra is not y.extra:
            conds.append(And(mkb(x.term == y.term), Not(_lookup_differs(x, y))))
        else:
            conds.append(sweep.pieces_equal([x], [y]))
    return And(*conds)


def run(ctx, st):
    name = st['name']
    a = [ctx.int('a%d' % i) for i in range(4)]
    r = [ctx.int('r%d' % i) for i in range(4)]
    prior = ()
    if st.get('after'):
        # the creating call succeeded and returned a descriptor (free; may or may not be the one the judged call uses)
        cw = [ctx.int('c%d' % i) for i in range(4)]
        if st['after'] == 'BSC_socket':
            # bounded: three address families, one socket type (each enum-typed word of the earlier call multiplies the paths)
            ctx.assume(And(Or(cw[0] == 1, cw[0] == 2, cw[0] == 30), cw[1] == 1))
        prior = [(st['after'], cw, [0, ctx.int('cfd'), 0, 0])]
    o1, used = _window(ctx, name, a, r, {}, prior)
    if o1.kind == 'text':
        ctx.observe('text-on-platform-A', o1.text)
    kinds = sorted({k for k, _ in used})
    for k in kinds:
        o2, used2 = _window(ctx, name, a, r, {k: platform_b(k, _a_value(k))}, prior)
        sites = sorted({s for kk, s in used | used2 if kk == k}) or ['?']
        if o1.kind == 'text' and o2.kind == 'text':
            same = _texts_equal(o1.pieces, o2.pieces) if ctx.symbolic else (o1.text == o2.text)
        else:
            same = (o1.kind == o2.kind) and (type(o1.exc) is type(o2.exc))
        where = _where(ctx, k, name, o1, o2)
        ctx.check('C18/%s@%s' % (k, where), same, '%s (read in %s): %s / %s' % (
            name, ', '.join(sites), o1.text if o1.kind == 'text' and not ctx.symbolic else o1.kind,
            o2.text if o2.kind == 'text' and not ctx.symbolic else o2.kind))
    _darwin_values(ctx, name, a, o1)
    ctx.reach()


def _where(ctx, kind, name, o1, o2):
    """what identifies a host dependence in a label: the consulted host attribute and the decoder; for the error-name table,
    when the two platforms' texts differ in the result part only, 'result-part/<decoder family>' - every BSC decoder shares
    that dependence, and which helper function performs the lookup is an implementation detail (two behaviour-preserving
    refactorings moved it and were reported under a new function name)"""
    if kind == 'errno' and o1.kind == 'text' and o2.kind == 'text':
        c1 = sweep.split_call(o1.pieces if ctx.symbolic else [o1.text])
        c2 = sweep.split_call(o2.pieces if ctx.symbolic else [o2.text])
        if c1.ok and c2.ok and c1.name == c2.name and len(c1.params) == len(c2.params):
            if ctx.symbolic:
                from vxlib.symx.core import eng
                cond = And(*[sweep.pieces_equal(p, q) for p, q in zip(c1.params, c2.params)])
                same_call = cond is True or (cond is not False and eng().must(cond))
            else:
                same_call = c1.params == c2.params
            if same_call:
                return 'result-part/' + name.split('_')[0]
    return name


def _darwin_values(ctx, name, a, o):
    """where the tool carries its own table, the names shown carry Darwin's numeric values (socket types, SOL_SOCKET)"""
    from oracle import darwin as D
    if o.kind != 'text':
        return
    cs = sweep.split_call(o.pieces if ctx.symbolic else [o.text])
    if not cs.ok:
        return
    def lit(k):
        if k >= len(cs.params):
            return None
        return ''.join(x for x in cs.params[k] if isinstance(x, str)).strip() if all(isinstance(x, str) for x in cs.params[k]) else None
    if name in ('BSC_socket', 'BSC_socketpair', 'BSC_socket_delegate'):
        t = lit(1)
        if t is not None and t.startswith('SOCK_'):
            ctx.check('C18/darwin-values/socket-type', t in D.SOCK and a[1] == D.SOCK.get(t, -1), '%s shown for type word' % t)
    if name in ('BSC_getsockopt', 'BSC_setsockopt'):
        t = lit(1)
        shown = t == 'SOL_SOCKET'
        is_sol = a[1] == D.SOL_SOCKET
        ctx.check('C18/darwin-values/SOL_SOCKET', And(Or(Not(shown), is_sol), Or(shown, Not(is_sol))) if ctx.symbolic
                  else shown == bool(is_sol), 'level shown as %r' % (t,))
