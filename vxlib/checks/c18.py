"""C18 - output is a function of the dump, not of the host operating system.

Product run: the same decoder window is executed under platform A's host tables and, for each kind
of host table the run consulted, again with that one table swapped for platform B's; z3 decides
whether the two renderings can differ.  Platforms: Darwin (oracle/darwin.py) and Linux x86_64
(oracle/linux.py, a snapshot) -- the verdict does not depend on the machine the check runs on.
"""
import enum
import sys
import z3
from vxlib import sweep
from vxlib.symx import And, Or, Not, Atom, SymTable, SymInt, OutOfDomain
from vxlib.symx.values import mkb, W
from vxlib.paths import REPO_PREFIX

PROPERTY = 'C18'
STUBS = ['struct.unpack model', 'enum lookup forks over the members of the (swapped) enum class',
         'errno table as SymTable built from the platform table', 'atoms for rendered ints', 'AST merge rewrites']
ASSUMPTIONS = ['a host platform is modelled by five tables: errno.errorcode, signal.Signals, socket.AddressFamily, '
               'socket.SocketKind, socket.SOL_SOCKET; two platforms are compared: Darwin (xnu headers) and Linux x86_64',
               'the code reaches the host tables through the errno/signal/socket modules or through module globals bound '
               'to those objects (both are swapped)']
OUTSIDE = ['host dependence through anything other than those five tables (locale, time zone, Python version)',
           'platforms other than the two compared']
EXPLORE_OPTS = {'max_paths': 30000, 'max_seconds': 900}
KINDS = ('errno', 'signal', 'family', 'socktype', 'sol_socket')
weight = sweep.weight
_state = {}


def setup(symbolic):
    if symbolic:
        from vxlib.symx import shims, loader
        loader.install()
        shims.install()


def bounds(tier):
    return {'decoders': 'every BSC_*/MSC_* decoder', 'words': 'a0..a3, r0..r3 free 64-bit (all error codes, signal numbers, '
            'families, socket types, option levels)', 'platforms': 'Darwin vs Linux x86_64, one table kind swapped at a time',
            'window': 'START, END, no lookups'}


def structures(tier):
    return [{'name': n} for n in sweep.decoder_names()]


class RecTable(SymTable):
    """platform errno table; records that (and from where) it was consulted"""
    sx_name = 'errno'
    sx_small = 0

    def _rec(self):
        f = sys._getframe(2)
        while f is not None and not f.f_code.co_filename.startswith(REPO_PREFIX):
            f = f.f_back
        _state['used'].add(('errno', f.f_code.co_name if f is not None else '?'))

    def __contains__(self, k):
        self._rec()
        return SymTable.__contains__(self, k)

    def __getitem__(self, k):
        self._rec()
        return SymTable.__getitem__(self, k)

    def get(self, k, d=None):
        self._rec()
        return SymTable.get(self, k, d)


def _mk_enum(name, members):
    return enum.IntEnum(name, sorted(members.items(), key=lambda kv: (kv[1], kv[0])))


def platforms():
    if 'plat' not in _state:
        import pykdebugparser.traces_parser      # noqa: repo modules must bind the real host objects before any swap
        from oracle import darwin, linux
        out = {}
        for nm, mod in (('darwin', darwin), ('linux', linux)):
            out[nm] = {'errno': dict(mod.ERRNO), 'signal': _mk_enum('Signals', mod.SIGNALS),
                       'family': _mk_enum('AddressFamily', mod.AF), 'socktype': _mk_enum('SocketKind', mod.SOCK),
                       'sol_socket': mod.SOL_SOCKET}
        _state['plat'] = out
        import errno, signal, socket
        from vxlib.symx import shims
        _state['orig'] = {'errno': shims.real('errorcode'), 'signal': signal.Signals, 'family': socket.AddressFamily,
                          'socktype': socket.SocketKind, 'sol_socket': socket.SOL_SOCKET}
    return _state['plat']


class _RecInt(int):
    """platform constant that records being compared with a symbolic value"""

    def _sx_on_use(self):
        f = sys._getframe(2)
        while f is not None and not f.f_code.co_filename.startswith(REPO_PREFIX):
            f = f.f_back
        _state['used'].add(('sol_socket', f.f_code.co_name if f is not None else '?'))


def apply(tables):
    """install the given kind->table mapping as 'the host'; returns an undo list"""
    import errno, signal, socket
    orig = _state['orig']
    undo = []

    def setattr_(obj, name, val):
        undo.append((obj, name, getattr(obj, name)))
        setattr(obj, name, val)
    setattr_(errno, 'errorcode', RecTable(tables['errno']))
    setattr_(signal, 'Signals', tables['signal'])
    setattr_(socket, 'AddressFamily', tables['family'])
    setattr_(socket, 'SocketKind', tables['socktype'])
    setattr_(socket, 'SOL_SOCKET', _RecInt(tables['sol_socket']))
    by_obj = {id(orig['signal']): 'signal', id(orig['family']): 'family', id(orig['socktype']): 'socktype',
              id(orig['errno']): 'errno'}
    for mname, mod in list(sys.modules.items()):
        if mod is None or not (mname == 'pykdebugparser' or mname.startswith('pykdebugparser.')):
            continue
        for gname, gval in list(vars(mod).items()):
            k = by_obj.get(id(gval))
            if k is None and isinstance(gval, (RecTable,)):
                k = 'errno'
            if k is None and gname in _state.get('enum_globals', {}).get(mname, {}):
                k = _state['enum_globals'][mname][gname]
            if k is None and gname == 'SOL_SOCKET' and isinstance(gval, int):
                k = 'sol_socket'
            if k is None:
                continue
            _state.setdefault('enum_globals', {}).setdefault(mname, {})[gname] = k
            undo.append((mod, gname, gval))
            setattr(mod, gname, RecTable(tables['errno']) if k == 'errno' else _RecInt(tables[k]) if k == 'sol_socket' else tables[k])
    return undo


def unapply(undo):
    for obj, name, val in reversed(undo):
        setattr(obj, name, val)


_KIND_OF_CLASS = {'Signals': 'signal', 'AddressFamily': 'family', 'SocketKind': 'socktype'}


def _window(ctx, name, a, r, tables):
    """run the decoder window with `tables` as the host; returns (Outcome, kinds used with their sites)"""
    from vxlib.symx import shims
    _state['used'] = set()
    undo = apply(tables)
    # record enum lookups on the platform enum classes
    real_call = enum.EnumType.__call__
    plat_classes = {id(tables[k]): k for k in ('signal', 'family', 'socktype')}

    def rec_call(cls, value, *aa, **kw):
        k = plat_classes.get(id(cls))
        if k is not None and not aa and not kw:
            f = sys._getframe(1)
            while f is not None and not f.f_code.co_filename.startswith(REPO_PREFIX):
                f = f.f_back
            _state['used'].add((k, f.f_code.co_name if f is not None else '?'))
        return real_call(cls, value, *aa, **kw)
    enum.EnumType.__call__ = rec_call
    try:
        o = sweep.run_window(ctx, name, a, r)
    finally:
        enum.EnumType.__call__ = real_call
        unapply(undo)
    return o, set(_state['used'])


def _lookup_differs(x, y):
    """condition under which two errno lookup atoms over different tables render differently"""
    t1, t2 = dict(x.extra), dict(y.extra)
    diff = [k for k in set(t1) | set(t2) if t1.get(k) != t2.get(k)]
    if not diff:
        return False
    return Or(*[mkb(x.term == k) for k in diff])


def _texts_equal(p1, p2):
    """like sweep.pieces_equal but errno-name atoms over different platform tables are compared by table content"""
    if len(p1) != len(p2):
        return False
    conds = []
    for x, y in zip(p1, p2):
        if isinstance(x, Atom) and isinstance(y, Atom) and x.kind == y.kind == 'lookup' and x.extra is not y.extra:
            conds.append(And(mkb(x.term == y.term), Not(_lookup_differs(x, y))))
        else:
            conds.append(sweep.pieces_equal([x], [y]))
    return And(*conds)


def run(ctx, st):
    name = st['name']
    plats = platforms()
    A, B = plats['darwin'], plats['linux']
    a = [ctx.int('a%d' % i) for i in range(4)]
    r = [ctx.int('r%d' % i) for i in range(4)]
    o1, used = _window(ctx, name, a, r, A)
    if o1.kind == 'text':
        ctx.observe('text-on-darwin', o1.text)
    kinds = sorted({k for k, _ in used})
    if not ctx.symbolic:
        kinds = list(KINDS)           # concrete replay: no recording needed, swap every kind in turn
    for k in kinds:
        tables = dict(A)
        tables[k] = B[k]
        o2, used2 = _window(ctx, name, a, r, tables)
        sites = sorted({s for kk, s in used | used2 if kk == k}) or ['?']
        if ctx.symbolic:
            labels = ['C18/%s@%s' % (k, s) for s in sites]
        else:
            labels = [lb for lb in getattr(ctx, 'hints', []) if lb.startswith('C18/%s@' % k)] or ['C18/%s@?' % k]
        if o1.kind == 'text' and o2.kind == 'text':
            same = _texts_equal(o1.pieces, o2.pieces) if ctx.symbolic else (o1.text == o2.text)
        else:
            same = (o1.kind == o2.kind) and (type(o1.exc) is type(o2.exc))
        for lb in labels:
            ctx.check(lb, same, '%s: %s / %s' % (name, o1.text if o1.kind == 'text' and not ctx.symbolic else o1.kind,
                                               o2.text if o2.kind == 'text' and not ctx.symbolic else o2.kind))
    ctx.reach()
