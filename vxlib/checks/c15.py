"""C15 - callstacks take the sampled frames and attribute each to the right image."""
import uuid as _uuid
from oracle import kdebug as K
from vxlib import sweep
from vxlib.symx import And, Or, Not, Implies, SymMap

PROPERTY = 'C15'
STUBS = ['struct.unpack model', 'the real C bisect runs on proxy ints (every comparison is a solver-decided fork)',
         'AST merge rewrite for the sampler flag helpers', 'uuid bytes are concrete (UUID() is a C boundary); they are '
         'pairwise distinct so that the attributed uuid identifies the announcement']
ASSUMPTIONS = ['sample windows carry the USTACK flag and a stack header (flag/record presence is C20\'s subject)',
               'header frame count N <= 9 (finite domain; the slice bound is concretised by forking)']
OUTSIDE = ['more than 4 announcements, more than 2 data records per sample, N > 9']
EXPLORE_OPTS = {'max_paths': 60000, 'max_seconds': 1200}
TID = 0x7a5
UUIDS = [bytes([0x10 * (i + 1) + j for j in range(16)]) for i in range(5)]


def setup(symbolic):
    if symbolic:
        from vxlib.symx import shims, loader
        loader.install()
        shims.install()


def bounds(tier):
    return {'announcements': '<= %d, load addresses free 64-bit (duplicates, adjacency, any order decided by the solver); '
                             'single map records and launch windows' % (3 if tier == 'quick' else 4),
            'samples': '1..2 per stream, frames free 64-bit, header count N free in 0..9, 0..2 data records, the stack header before, between or after them',
            'timestamps': 'sample START timestamp free 64-bit'}


def structures(tier):
    sts = []
    # attribution: items A=announce (map_a record), L<k>=launch window with k images, S<d>:<n>=sample with d data records
    # and a header count fixed to n (None = symbolic 0..9)
    att = [['S1:2'], ['A', 'S1:2'], ['A', 'A', 'S1:2'], ['A', 'A', 'A', 'S1:2'], ['A', 'S1:1', 'A', 'S1:1'],
           ['L2', 'S1:2'], ['A', 'L1', 'S1:1'], ['L2', 'A', 'S1:1'], ['S1:1', 'L2', 'S1:1='], ['S1:1', 'Lc1', 'S1:1='],
           ['A', 'S1:1', 'Lc1', 'S1:1=']]
    att += [['U', 'S1:2'], ['A', 'U', 'S1:1', 'U', 'S1:2'], ['S1:2t'], ['A', 'S1:1t', 'S1:1']]
    # the stack header need not be the first stack record of its window: 'h' = after the first data record, 'H' = after all
    att += [['S2:5h'], ['S1:2H'], ['A', 'S2:6H']]
    sel = [['S0:None'], ['S1:None'], ['S2:None'], ['A', 'S2:None']]
    if tier == 'thorough':
        att += [['A', 'S1:1', 'L2', 'S1:1='], ['S1:1', 'A', 'S1:1='], ['A', 'A', 'A', 'A', 'S1:1'], ['A', 'A', 'A', 'S1:3'], ['L2', 'L2', 'S1:1'], ['A', 'A', 'S1:1', 'A', 'S1:2']]
        # (['A', 'A', 'A', 'A', 'S1:2'] needs 12 min for one ordering shard: 4 announcements are covered with one frame)
        sel += [['A', 'A', 'S1:None']]
    for s in att + sel:
        na = sum(1 if x == 'A' else int(x.lstrip('Lc')) if x[0] == 'L' else 0 for x in s)
        rels = [None]
        if na >= 3:      # shard the address orderings: relation of image 0 to image 1 and of image 1 to image 2
            rels = [(a, b) for a in ('lt', 'eq', 'gt') for b in ('lt', 'eq', 'gt')]
        elif na == 2:
            rels = [(a, None) for a in ('lt', 'eq', 'gt')]
        ns = list(range(10)) if s[-1].endswith('None') else [None]
        for rel in rels:
            for n in ns:
                sts.append({'items': s, 'rel': rel, 'n': n})
    return sts


def weight(st):
    return sum(3 if x[0] in 'AL' else 1 for x in st['items']) + (10 if 'None' in st['items'][-1] else 0)


def _map_a(ctx, by_name, ts, idx, addr, name='DYLD_uuid_map_a'):
    data = UUIDS[idx] + K.to_le(addr, 8) + K.to_le(0x1000 + idx, 8)
    return sweep.make_event_data(ts, data, TID, by_name[name])


def run(ctx, st):
    from pykdebugparser.callstacks_parser import CallstacksParser
    from pykdebugparser.traces_parser import TracesParser
    by_id, by_name = sweep.codes()
    events = []
    announced = []          # (addr, uuid) in stream order
    samples = []            # dicts
    ts = 1000
    ai = 0
    for it in st['items']:
        if it == 'U':
            # a stack-data record of the thread outside any sample window (the dump starts in the middle of a sample)
            events.append(sweep.make_event(ts, [ctx.int('stray%d_%d' % (len(events), q)) for q in range(4)], TID, by_name['PERF_STK_UData']))
            ts += 1
            continue
        if it == 'A':
            addr = ctx.int('addr%d' % ai)
            events.append(_map_a(ctx, by_name, ts, ai, addr)); ts += 1
            announced.append((addr, _uuid.UUID(bytes=UUIDS[ai]), len(events)))
            ai += 1
        elif it[0] == 'L':
            cache_only = it[1] == 'c'          # launch window whose images are shared-cache records only
            k = int(it[2:] if cache_only else it[1:])
            lid = by_name['DBG_DYLD_TIMING_LAUNCH_EXECUTABLE']
            events.append(sweep.make_event(ts, [0, 0x100000, 0, 0], TID, lid | 1)); ts += 1
            inner = []
            for j in range(k):
                addr = ctx.int('addr%d' % ai)
                nm = 'DYLD_uuid_shared_cache_a' if (cache_only or j % 2) else 'DYLD_uuid_map_a'
                events.append(_map_a(ctx, by_name, ts, ai, addr, nm)); ts += 1
                inner.append((addr, _uuid.UUID(bytes=UUIDS[ai]), ai))
                ai += 1
            events.append(sweep.make_event(ts, [0, 0, 0, 0], TID, lid | 2)); ts += 1
            # the launch trace is emitted at its END: its images (sorted by address, stable) are announced then; the
            # nested map_a records were already announced one by one as single events; shared-cache ones only here
            for a in inner:
                announced.append((a[0], a[1], len(events)))
        else:
            same_frames = it.endswith('=')        # this sample repeats the previous sample's frames
            hdr_after = {'h': 1, 'H': 99}.get(it[-1], 0)   # stack header after that many of the sample's data records
            it = it.rstrip('hH')
            with_thd = it.endswith('t')               # thread info requested and recorded: it names a free thread
            it = it.rstrip('t')
            d, n = it.rstrip('=')[1:].split(':')
            d = int(d)
            si = len(samples)
            sts = ctx.int('ts%d' % si)
            if n == 'None':
                N = ctx.int('n%d' % si, 4)
                ctx.assume(N <= 9)
            else:
                N = int(n)
            flags = ctx.int('flags%d' % si, 16)
            ctx.assume((flags & 0x8) != 0)
            pe = by_name['PERF_Event']
            if with_thd:
                ctx.assume((flags & 0x1) != 0)
            start = sweep.make_event(sts, [flags, 7, 0, 0], TID, pe | 1)
            events.append(start)
            if with_thd:
                events.append(sweep.make_event(ts, [ctx.int('thd_pid%d' % si, 32), ctx.int('thd_tid%d' % si), 0, 0], TID, by_name['PERF_THD_Data'])); ts += 1
            hdr_after = min(hdr_after, d)
            hwords = [ctx.int('hflags%d' % si, 9), N, 0, 0]
            if hdr_after == 0:
                events.append(sweep.make_event(ts, hwords, TID, by_name['PERF_STK_UHdr'])); ts += 1
            words = []
            for j in range(d):
                w = [ctx.int('f%d_%d_%d' % (si, j, q)) for q in range(4)]
                if same_frames:
                    for q in range(4):
                        ctx.assume(w[q] == samples[-1]['words'][4 * j + q])
                words += w
                events.append(sweep.make_event(ts, w, TID, by_name['PERF_STK_UData'])); ts += 1
                if hdr_after == j + 1:
                    events.append(sweep.make_event(ts, hwords, TID, by_name['PERF_STK_UHdr'])); ts += 1
            events.append(sweep.make_event(ts, [flags, 0, 0, 0], TID, pe | 2)); ts += 1
            samples.append({'ts': sts, 'N': N, 'words': words, 'after': len(events), 'known': [a for a in announced]})
    # shards (they partition the input space; see structures())
    def _rel(x, y, r):
        return {'lt': x < y, 'eq': x == y, 'gt': x > y}[r]
    if st.get('rel'):
        addrs = [a[0] for a in announced]
        if st['rel'][0]:
            ctx.assume(_rel(addrs[0], addrs[1], st['rel'][0]))
        if st['rel'][1]:
            ctx.assume(_rel(addrs[1], addrs[2], st['rel'][1]))
    if st.get('n') is not None:
        ctx.assume(samples[-1]['N'] == st['n'])
    tp = TracesParser(by_id, SymMap() if ctx.symbolic else {}, SymMap() if ctx.symbolic else {})
    cp = CallstacksParser([], [])
    try:
        out = list(cp.feed_generator(tp.feed_generator(iter(events))))
    except Exception as e:      # noqa
        __import__('vxlib.symx.core', fromlist=['x']).proxy_rejected(e)
        ctx.check('C15/no-error', False, '%s: %s' % (type(e).__name__, e))
        ctx.reach()
        return
    ctx.check('C15/one-callstack-per-sample', len(out) == len(samples), '%d callstacks for %d samples' % (len(out), len(samples)))
    for cs, sm in zip(out, samples):
        ctx.check('C15/stamp', And(cs.timestamp == sm['ts'], cs.tid == TID))
        N, words = sm['N'], sm['words']
        nfr = len(cs.frames)                      # concrete on this path
        ctx.check('C15/frame-count', And(nfr <= len(words), Or(nfr == N, And(nfr == len(words), N >= len(words)))),
                  '%d frames, header says %s, %d words supplied' % (nfr, N, len(words)))
        for i, fr in enumerate(cs.frames[:len(words)]):
            ctx.check('C15/frame-word', fr.address == words[i], 'frame %d is not word %d of the data records' % (i, i))
            known = sm['known']
            f = words[i]
            if fr.uuid is None:
                ctx.check('C15/attribution/none', And(fr.offset is None, *[a[0] > f for a in known]),
                          'frame left unattributed although an image lies at or below it')
            else:
                js = [j for j, a in enumerate(known) if a[1] == fr.uuid]
                if len(js) != 1:
                    ctx.check('C15/attribution/known-image', False, 'uuid %s was not announced before the sample' % fr.uuid)
                    continue
                j = js[0]
                aj = known[j][0]
                ctx.check('C15/attribution/below', aj <= f, 'attributed image lies above the frame')
                ctx.check('C15/attribution/greatest', And(*[Implies(a[0] <= f, a[0] <= aj) for a in known]),
                          'a closer image below the frame exists')
                ctx.check('C15/attribution/first-identity', And(*[a[0] != aj for a in known[:j]]),
                          'an earlier announcement of the same address exists')
                ctx.check('C15/attribution/offset', And(fr.offset == f - aj, fr.offset >= 0))
    ctx.reach()
