"""C01 - every 64-byte kd_buf record decodes exactly and totally."""
from oracle import kdebug as K

PROPERTY = 'C01'
EXHAUSTIVE = True
STUBS = ['struct.unpack model generated from the format strings the code passes (KD_BUF_FORMAT, <QQQQ)',
         'structures "after": SymStream / SymMap for the earlier parse; AST loader (set / dict probes with symbolic keys)']
ASSUMPTIONS = ['the struct.unpack model is faithful (validated against C struct on every run)']
OUTSIDE = []
REQUIRED_LABELS = ['C01/total', 'C01/timestamp', 'C01/data', 'C01/values', 'C01/tid', 'C01/debugid', 'C01/eventid',
                   'C01/qualifier', 'C01/qualifier-range', 'C01/reassemble', 'C01/rebuild52',
                   'C01/noninterference/timestamp', 'C01/noninterference/data', 'C01/noninterference/tid',
                   'C01/noninterference/debugid']


def setup(symbolic):
    if symbolic:
        from vxlib.symx import shims, loader
        loader.install()
        shims.install()


def bounds(tier):
    return {'records': 'all 2^512 64-byte buffers (64 free 8-bit variables), one structure; non-interference: all '
                       'pairs of buffers (2 x 64 free bytes)', 'paths': 'no bound needed (straight-line code)'}


def structures(tier):
    return [{'kind': 'decode'}, {'kind': 'noninterference'}, {'kind': 'length', 'n': 63}, {'kind': 'length', 'n': 65},
            # the same record after the process has read a dump (thread map with a free tid/pid, one free record): the
            # decoding of a record does not depend on what was parsed before
            {'kind': 'decode', 'after': 'v2-dump'}, {'kind': 'noninterference', 'after': 'v2-dump'},
            # auxiliary net, not a decision: a long concrete history (more distinct records than any power-of-two sized
            # cache up to 2^16 / 2^17 holds), then the first records again, then one free record
            {'kind': 'history', 'n': 70000 if tier == 'quick' else 140000}]


def _decode(ctx, b, tag=''):
    from pykdebugparser import kevent
    try:
        return kevent.from_kd_buf(b)
    except Exception as e:   # noqa - totality is the obligation
        __import__('vxlib.symx.core', fromlist=['x']).proxy_rejected(e)
        ctx.fail('C01/total', '%s: %s' % (type(e).__name__, e))
        return None


def run(ctx, st):
    from vxlib.symx import And, Implies
    if st['kind'] == 'length':
        # not part of the property (it speaks of 64-byte records); recorded as a reachability witness that the
        # decoder rejects other sizes instead of fabricating an event
        from pykdebugparser import kevent
        b = ctx.bytes('rec', st['n'])
        try:
            kevent.from_kd_buf(b)
            ctx.check('C01/wrong-size-rejected', False)
        except Exception:
            ctx.check('C01/wrong-size-rejected', True)
        ctx.reach()
        return
    if st['kind'] == 'history':
        import struct
        from pykdebugparser import kevent
        n = st['n']

        def rec(i):
            return struct.pack('<QQQQQQIIQ', 1000 + i, i, i * 0x9e3779b97f4a7c15 & (2 ** 64 - 1), ~i & (2 ** 64 - 1), i ^ 0x5555, 0x300 + (i & 0xff),
                               0x40c0000 | ((i * 4) & 0xfffc) | (i & 3), i & 7, 0)
        bad = None
        for phase, idx in (('first pass', range(n)), ('again', range(0, 3000)), ('again, far', range(n - 3000, n))):
            for i in idx:
                b = rec(i)
                ev = kevent.from_kd_buf(b)
                spec = K.Rec(b)
                if not (ev.timestamp == spec.timestamp and ev.data == spec.data and tuple(ev.values) == tuple(spec.args)
                        and ev.tid == spec.tid and ev.debugid == spec.debugid):
                    bad = (phase, i)
                    break
            if bad:
                break
        ctx.check('C01/history/each-record-decodes-as-on-its-own', bad is None, 'record %r decodes differently (%s)' % (bad and bad[1], bad and bad[0]))
        b = ctx.bytes('rec', 64)
        ev = _decode(ctx, b)
        if ev is not None:
            spec = K.Rec(b)
            ctx.check('C01/history/free-record-after-the-history', And(ev.timestamp == spec.timestamp, ev.data == spec.data, ev.tid == spec.tid,
                                                                       ev.debugid == spec.debugid, *[ev.values[i] == spec.args[i] for i in range(4)]))
        ctx.reach()
        return
    if st.get('after') == 'v2-dump':
        import io
        from pykdebugparser.pykdebugparser import PyKdebugParser
        from vxlib.symx.stream import make_stream
        from vxlib.symx import SymMap
        pre = ctx.bytes('earlier', 64)
        ctx.assume(pre[0] != 0)
        p = PyKdebugParser()
        if ctx.symbolic:
            p.threads_pids, p.pids_names = SymMap(), SymMap()
        try:
            list(p.kevents(make_stream(K.v2_file([(ctx.int('maptid'), ctx.int('mappid', 32), b'procA')], 3, [pre]))))
        except Exception as e:      # noqa - what the earlier parse does is C02's subject
            __import__('vxlib.symx.core', fromlist=['x']).proxy_rejected(e)
    b = ctx.bytes('rec', 64)
    ev = _decode(ctx, b)
    if ev is None:
        return
    ctx.check('C01/total', True)
    if st['kind'] == 'decode':
        spec = K.Rec(b)
        ctx.observe('event', [ev.timestamp, ev.data, list(ev.values), ev.tid, ev.debugid, ev.eventid, ev.func_qualifier])
        ctx.check('C01/fields', len(ev) == 7 and type(ev).__name__ == 'Kevent')
        ctx.check('C01/timestamp', ev.timestamp == spec.timestamp)
        ctx.check('C01/data', ev.data == spec.data)
        ctx.check('C01/values', len(ev.values) == 4 and And(*[ev.values[i] == spec.args[i] for i in range(4)]))
        ctx.check('C01/tid', ev.tid == spec.tid)
        ctx.check('C01/debugid', ev.debugid == spec.debugid)
        ctx.check('C01/eventid', ev.eventid == (spec.debugid & 0xfffffffc))
        ctx.check('C01/qualifier', ev.func_qualifier == (spec.debugid & 3))
        ctx.check('C01/qualifier-range', And(ev.func_qualifier >= 0, ev.func_qualifier <= 3))
        ctx.check('C01/reassemble', (ev.eventid | ev.func_qualifier) == ev.debugid)
        rebuilt = K.to_le(ev.timestamp, 8) + ev.data + K.to_le(ev.tid, 8) + K.to_le(ev.eventid | ev.func_qualifier, 4)
        ctx.check('C01/rebuild52', rebuilt == b[0:52])
        # values are the words of the data field of the *event* as well
        ctx.check('C01/values-of-data', And(*[ev.values[i] == K.le(ev.data, 8 * i, 8) for i in range(4)]))
    else:
        b2 = ctx.bytes('rec2', 64)
        ev2 = _decode(ctx, b2)
        if ev2 is None:
            return
        # two records agreeing on one field's bytes decode to the same field, whatever the other 56+ bytes are
        ctx.check('C01/noninterference/timestamp', Implies(b[0:8] == b2[0:8], ev.timestamp == ev2.timestamp))
        ctx.check('C01/noninterference/data', Implies(b[8:40] == b2[8:40], And(
            ev.data == ev2.data, *[ev.values[i] == ev2.values[i] for i in range(4)])))
        for i in range(4):
            ctx.check('C01/noninterference/value%d' % i,
                      Implies(b[8 + 8 * i:16 + 8 * i] == b2[8 + 8 * i:16 + 8 * i], ev.values[i] == ev2.values[i]))
        ctx.check('C01/noninterference/tid', Implies(b[40:48] == b2[40:48], ev.tid == ev2.tid))
        ctx.check('C01/noninterference/debugid', Implies(b[48:52] == b2[48:52], And(
            ev.debugid == ev2.debugid, ev.eventid == ev2.eventid, ev.func_qualifier == ev2.func_qualifier)))
    ctx.reach()
