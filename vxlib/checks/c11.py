"""C11 - flag words and packed fields decode to exactly the names of the bits set."""
import re
from oracle import darwin as D
from oracle import kdebug as K
from vxlib import sweep
from vxlib.symx import And, Or, Not, Implies, Atom, OutOfDomain

PROPERTY = 'C11'
STUBS = ['struct.unpack model', 'enum forks / atoms / errno SymTable', 'AST merge rewrites: the flag helpers run as ONE '
         'path carrying a guarded list (name, z3 guard) instead of 2^n paths; thorough also runs the two loop-style '
         'helpers path-wise on the untouched source']
ASSUMPTIONS = ['the flag text of a call-shaped decoder is the parameter at the argument\'s position (C09)',
               'names are recognised in the rendered text (join atoms and literal tokens)']
OUTSIDE = ['order of the names', 'names Darwin defines but the tool does not declare (not required to be shown)',
           'ioctl request words whose direction bits are none of VOID/OUT/IN/INOUT; ioctl words above 32 bits']
EXPLORE_OPTS = {'max_paths': 60000, 'max_seconds': 1500}


def setup(symbolic):
    if symbolic:
        from vxlib.symx import shims, loader
        loader.install()
        shims.install()
    sweep.snapshot_state()


# ---------------------------------------------------------------------------------- specification
def _bits(table, exclude=()):
    return {n: v for n, v in table.items() if v and n not in exclude}


def spec_open(v):
    acc = v & 3
    out = {'O_RDONLY': acc == 0, 'O_WRONLY': acc == 1, 'O_RDWR': acc == 2}
    for n, d in D.O_FLAGS.items():
        if n in ('O_RDONLY', 'O_WRONLY', 'O_RDWR', 'O_ACCMODE'):
            continue
        out[n] = (v & d) != 0
    return out, (acc != 3), {'O_ACCMODE'}


def spec_stat(v):
    out = {}
    t = v & D.S_IFMT
    for n, d in D.S_TYPES.items():
        out[n] = t == d
    for n, d in D.S_BITS.items():
        out[n] = (v & d) != 0
    return out, True, set()


def spec_access(v):
    out = {n: (v & d) != 0 for n, d in D.ACCESS.items() if d}
    out['F_OK'] = (v & 7) == 0
    return out, True, set()


def _simple(table, none_name=None):
    def spec(v):
        out = {n: (v & d) != 0 for n, d in table.items() if d}
        if none_name:
            out[none_name] = v == 0
        return out, True, set()
    return spec


FAMILIES = {
    'open': spec_open, 'stat': spec_stat, 'access': spec_access,
    'msg': _simple(D.MSG), 'lock': _simple(D.LOCK), 'chflags': _simple(D.CHFLAGS),
    'vmprot': _simple(D.VM_PROT, 'VM_PROT_NONE'), 'ast': _simple(D.AST, 'AST_NONE'), 'thstate': _simple(D.TH_STATE),
    'sampler': _simple(D.SAMPLER), 'callstack': _simple(D.CALLSTACK), 'kperfti': _simple(D.KPERF_TI),
    'rtld': _simple(D.RTLD),
}
UNIVERSE = {
    'open': set(D.O_FLAGS), 'stat': set(D.S_TYPES) | set(D.S_BITS), 'access': set(D.ACCESS), 'msg': set(D.MSG),
    'lock': set(D.LOCK), 'chflags': set(D.CHFLAGS), 'vmprot': set(D.VM_PROT), 'ast': set(D.AST),
    'thstate': set(D.TH_STATE), 'sampler': set(D.SAMPLER), 'callstack': set(D.CALLSTACK), 'kperfti': set(D.KPERF_TI),
    'rtld': set(D.RTLD),
}
PREFIX = {'open': 'O_', 'stat': 'S_I', 'access': ('F_OK', 'X_OK', 'W_OK', 'R_OK'), 'msg': 'MSG_', 'lock': 'LOCK_',
          'chflags': ('UF_', 'SF_'), 'vmprot': 'VM_PROT_', 'ast': 'AST_', 'thstate': 'TH_', 'sampler': 'SAMPLER_',
          'callstack': 'CALLSTACK_', 'kperfti': 'KPERF_TI_', 'rtld': 'RTLD_'}

# (code name, window, argument index, field of the argument, family, parameter position or None = whole text)
SITES = [
    ('BSC_open', 'pair', 1, None, 'open', 1), ('BSC_open_nocancel', 'pair', 1, None, 'open', 1),
    ('BSC_openat', 'pair', 2, None, 'open', 2), ('BSC_openat_nocancel', 'pair', 2, None, 'open', 2),
    ('BSC_open_dprotected_np', 'pair', 1, None, 'open', 1), ('BSC_guarded_open_np', 'pair', 3, None, 'open', 3),
    ('BSC_guarded_open_dprotected_np', 'pair', 3, None, 'open', 3), ('BSC_openbyid_np', 'pair', 2, None, 'open', 2),
    ('BSC_shm_open', 'pair', 1, None, 'open', 1), ('BSC_sem_open', 'pair', 1, None, 'open', 1),
    ('BSC_shm_open', 'pair', 2, None, 'stat', 2), ('BSC_sem_open', 'pair', 2, None, 'stat', 2),
    ('BSC_chmod', 'pair', 1, None, 'stat', 1), ('BSC_fchmod', 'pair', 1, None, 'stat', 1),
    ('BSC_mkfifo', 'pair', 1, None, 'stat', 1), ('BSC_mkdir', 'pair', 1, None, 'stat', 1),
    ('BSC_mkdirat', 'pair', 2, None, 'stat', 2), ('BSC_fchmodat', 'pair', 2, None, 'stat', 2),
    ('BSC_access', 'pair', 1, None, 'access', 1), ('BSC_faccessat', 'pair', 2, None, 'access', 2),
    ('BSC_recvfrom', 'pair', 3, None, 'msg', 3), ('BSC_recvfrom_nocancel', 'pair', 3, None, 'msg', 3),
    ('BSC_chflags', 'pair', 1, None, 'chflags', 1), ('BSC_fchflags', 'pair', 1, None, 'chflags', 1),
    ('BSC_sys_flock', 'pair', 1, None, 'lock', 1),
    ('MACH_SCHED', 'single', 0, None, 'ast', None),
    ('MACH_IDLE', 'single', 3, None, 'ast', None), ('MACH_BLOCK', 'single', 0, None, 'ast', None),
    ('MACH_DISPATCH', 'single', 1, None, 'ast', None), ('MACH_DISPATCH', 'single', 2, None, 'thstate', None),
    ('RealFaultAddressInternal', 'single', 1, (8, 0xff), 'vmprot', None),
    ('RealFaultAddressExternal', 'single', 1, (8, 0xff), 'vmprot', None),
    ('RealFaultAddressSharedCache', 'single', 1, (8, 0xff), 'vmprot', None),
    ('PERF_Event', 'single', 0, None, 'sampler', None), ('PERF_THD_Data', 'single', 3, (0, 0xffff), 'kperfti', None),
    ('PERF_STK_UHdr', 'single', 0, None, 'callstack', None),
    ('DBG_DYLD_TIMING_DLOPEN', 'pair', 2, None, 'rtld', None),
]
_TOKEN = re.compile(r'[A-Za-z_][A-Za-z_0-9]*')


def bounds(tier):
    b = {'flag words': 'the whole 64-bit argument word free (the other three words free as well)',
         'sites': '%d (decoder, argument) sites through the real pipeline; ioctl: all 2^32 request words' % len(SITES),
         'merge': 'flag helpers merged into one guarded list per call (AST rewrite)'}
    if tier == 'thorough':
        b['pathwise'] = ('serialize_open_flags and serialize_stat_flags also executed path-wise on the untouched source, '
                         'sharded by the values of the multi-bit field and four flag bits')
    return b


def structures(tier):
    sts = [{'kind': 'site', 'i': i} for i in range(len(SITES))]
    sts.append({'kind': 'ioctl'})
    sts.append({'kind': 'perf-history'})
    # the same decoder on other words first (process-level memos keyed by part of the word), then the judged word
    for n in sorted({s[0] for s in SITES if s[1] == 'pair'} | {'BSC_ioctl'}):
        sts.append({'kind': 'twice', 'name': n})
        # ... or another call that could leave per-process state behind (a creation mask, an open descriptor)
        for other in ('BSC_umask', 'BSC_open'):
            if other != n:
                sts.append({'kind': 'twice', 'name': n, 'other': other})
    if tier == 'thorough':
        for acc in range(4):
            for hi in range(8):
                sts.append({'kind': 'pathwise', 'fn': 'open', 'acc': acc, 'hi': hi})
        for t in range(16):
            for hi in range(4):
                sts.append({'kind': 'pathwise', 'fn': 'stat', 'type': t, 'hi': hi})
    return sts


def weight(st):
    return 5 if st['kind'] == 'pathwise' else 1


def declared_names(names_shown, family):
    """names the tool declares for this family: the members of the repo Enum classes owning the family's names"""
    import enum
    import importlib
    out = set()
    for m in ('bsd', 'mach', 'perf', 'dyld'):
        mod = importlib.import_module('pykdebugparser.trace_handlers.' + m)
        for obj in vars(mod).values():
            if isinstance(obj, type) and issubclass(obj, enum.Enum) and obj.__module__ == mod.__name__:
                names = set(obj.__members__)
                if len(names & UNIVERSE[family]) >= 2 and _has_prefix(names, family):
                    out |= names
    return out


def _has_prefix(names, family):
    p = PREFIX[family]
    p = p if isinstance(p, tuple) else (p,)
    return sum(1 for n in names if n.startswith(p)) * 2 >= len(names)


def shown_names(pieces, family):
    """name -> guard (True | z3 Bool) for every family-looking name in the pieces"""
    p = PREFIX[family]
    p = p if isinstance(p, tuple) else (p,)
    out = {}

    def add(n, g):
        if n.startswith(p) or n in UNIVERSE[family]:
            out[n] = Or(out[n], g) if n in out else g
    for x in pieces:
        if isinstance(x, Atom):
            if x.kind == 'join':
                for g, s in x.term:
                    from vxlib.symx.values import mkb
                    add(s, g if isinstance(g, bool) else mkb(g))
        else:
            for tok in _TOKEN.findall(x):
                add(tok, True)
    return out


def field_of(a, site):
    v = a[site[2]]
    if site[3]:
        sh, mask = site[3]
        v = (v >> sh) & mask
    return v


def run(ctx, st):
    if st['kind'] == 'ioctl':
        return run_ioctl(ctx)
    if st['kind'] == 'pathwise':
        return run_pathwise(ctx, st)
    if st['kind'] == 'perf-history':
        return run_perf_history(ctx, st)
    if st['kind'] == 'twice':
        return run_twice(ctx, st)
    site = SITES[st['i']]
    name, window, argi, fld, family, pos = site
    a = [ctx.int('a%d' % i) for i in range(4)]
    r = [ctx.int('r%d' % i) for i in range(4)]
    if window == 'pair':
        if name.startswith('DBG_DYLD'):
            ctx.assume(a[1] == 0)          # no path string id: the string table is C07/C08's subject
        o = sweep.run_window(ctx, name, a, r)
    else:
        o = run_single(ctx, name, a)
    if o.kind != 'text':
        ctx.reach('outcome:' + o.kind)
        ctx.reach()
        return
    ctx.observe('text', o.text)
    L = 'C11/%s/a%d' % (name, argi)
    pieces = o.pieces
    if pos is not None:
        cs = sweep.split_call(pieces)
        pieces = cs.params[pos] if cs.ok and pos < len(cs.params) else []
        if family == 'stat' and name in ('BSC_shm_open', 'BSC_sem_open'):
            pass        # the mode parameter is only rendered with O_CREAT; judged when present (below)
    v = field_of(a, site)
    spec, applicable, unconstrained = FAMILIES[family](v)
    shown = shown_names(pieces, family)
    declared = declared_names(shown, family)
    ctx.check(L + '/declared-found', len(declared) > 0)
    if family == 'stat' and name in ('BSC_shm_open', 'BSC_sem_open'):
        applicable = And(applicable, (a[1] & D.O_FLAGS['O_CREAT']) != 0)
    for n in sorted(set(shown) | (declared & set(spec))):
        if n in unconstrained:
            continue
        g = shown.get(n, False)
        if n not in spec:
            ctx.check('%s/%s' % (L, n), Not(And(applicable, g)), 'a name Darwin does not define for this field is shown')
            continue
        c = spec[n]
        ctx.check('%s/%s' % (L, n), Implies(applicable, And(Implies(g, c), Implies(c, g))),
                  'shown iff set (Darwin value) fails for ' + n)
    ctx.reach()


def run_perf_history(ctx, st):
    """flag words decode the same whatever was decoded before: an incomplete sample (header announces more frames than
    the window carries), then the three perf flag decoders again on the same words"""
    _, by_name = sweep.codes()
    hflags = ctx.int('hflags', 9)
    sflags = ctx.int('sflags', 14)
    runmode = ctx.int('runmode', 7)
    pe = by_name['PERF_Event']
    evs = [sweep.make_event(10, [sflags | 0x8, 1, 0, 0], sweep.TID, pe | 1),
           sweep.make_event(11, [hflags, 5, 0, 0], sweep.TID, by_name['PERF_STK_UHdr']),
           sweep.make_event(12, [1, 2, 3, 4], sweep.TID, by_name['PERF_STK_UData']),
           sweep.make_event(13, [0, 0, 0, 0], sweep.TID, pe | 2)]
    p = sweep.new_parser()
    try:
        list(p.feed_generator(iter(evs)))
    except Exception:       # noqa: C07's subject
        ctx.reach('exc'); ctx.reach(); return
    for nm, argi, word, family in (('PERF_STK_UHdr', 0, hflags, 'callstack'), ('PERF_Event', 0, sflags, 'sampler'),
                                   ('PERF_THD_Data', 3, runmode, 'kperfti')):
        a = [0, 0, 0, 0]
        a[argi] = word
        o = run_single(ctx, nm, a)
        if o.kind != 'text':
            continue
        spec, applicable, unconstrained = FAMILIES[family](word)
        shown = shown_names(o.pieces, family)
        for n in sorted(set(shown) | (declared_names(shown, family) & set(spec))):
            g = shown.get(n, False)
            c = spec.get(n, False)
            ctx.check('C11/%s/after-history/%s' % (nm, n), And(Implies(g, c), Implies(c, g)), 'shown iff set fails for %s after an incomplete sample' % n)
    ctx.reach()


def run_single(ctx, name, a, q=0):
    by_id, by_name = sweep.codes()
    ev = sweep.make_event(100, a, sweep.TID, by_name[name] | q)
    p = sweep.new_parser()
    try:
        t = p.feed(ev)
        if t is None:
            return sweep.Outcome('none')
        s = str(t)
    except OutOfDomain:
        return sweep.Outcome('ood')
    except Exception as e:   # noqa
        __import__('vxlib.symx.core', fromlist=['x']).proxy_rejected(e)
        return sweep.Outcome('exc', exc=e)
    return sweep.Outcome('text', text=s, trace=t, pieces=ctx.template(s))


_IOC_RE = re.compile(r"_IOC\((?P<dir>[^,]*), '(?P<g>.*)', (?P<n>-?\d+), (?P<l>-?\d+)\)", re.S)


def run_twice(ctx, st):
    """a flag word decodes to the same text whether or not the same decoder handled another word before it"""
    name = st['name']
    a = [ctx.int('a%d' % i) for i in range(4)]
    b = [ctx.int('b%d' % i) for i in range(4)]
    r = [ctx.int('r%d' % i) for i in range(4)]
    if name == 'BSC_ioctl':
        a[1], b[1] = ctx.int('a1w', 32), ctx.int('b1w', 32)
        for x in (a[1], b[1]):
            ctx.assume(Or(*[(x & D.IOC_DIRMASK) == k for k in D.IOC_DIRS]))
    sweep.reset_state()
    o1 = sweep.run_window(ctx, name, b, r)
    if o1.kind != 'text':
        ctx.reach('outcome:' + o1.kind); ctx.reach(); return
    sweep.reset_state()
    if st.get('other'):
        # same parser object: the earlier call is a window of its own before the judged one
        o2 = sweep.run_window(ctx, name, b, r, prior=[(st['other'], a, [0, ctx.int('oret'), 0, 0])])
    else:
        sweep.run_window(ctx, name, a, r)
        o2 = sweep.run_window(ctx, name, b, r)
    sweep.reset_state()
    L = 'C11/%s/after-%s' % (name, st.get('other', 'another-word'))
    if o2.kind != 'text':
        ctx.check(L, False, 'second decoding: ' + o2.kind)
    else:
        ctx.check(L, sweep.pieces_equal(o1.pieces, o2.pieces) if ctx.symbolic else o1.text == o2.text,
                  'the same record renders differently after the decoder handled another word')
    ctx.reach()


def run_ioctl(ctx):
    a = [ctx.int('a0'), ctx.int('a1', 32), ctx.int('a2'), ctx.int('a3')]
    r = [ctx.int('r%d' % i) for i in range(4)]
    x = a[1]
    d = x & D.IOC_DIRMASK
    valid = Or(*[d == k for k in D.IOC_DIRS])
    ctx.assume(valid)
    o = sweep.run_window(ctx, 'BSC_ioctl', a, r)
    L = 'C11/BSC_ioctl'
    if o.kind != 'text':
        ctx.check(L + '/decodes', False, 'ioctl request with a valid direction does not render: %s %r' % (o.kind, o.exc))
        ctx.reach()
        return
    ctx.check(L + '/decodes', True)
    ctx.observe('text', o.text)
    want_dir, want_g, want_n, want_l = D.ioc_unpack(x)
    if ctx.symbolic:
        cs = sweep.split_call(o.pieces)
        par = cs.params[1] if cs.ok and len(cs.params) > 1 else []
        # pieces: <x a1> ' /* _IOC(' DIR ", '" <chr> "', " <d> ', ' <d> ') */'
        lits = [p for p in par if isinstance(p, str)]
        atoms = [p for p in par if isinstance(p, Atom)]
        ok = len(atoms) == 4 and len(lits) >= 4
        ctx.check(L + '/shape', ok)
        if ok:
            m = re.match(r"^ /\* _IOC\((.*), '$", lits[0], re.S)
            dirtext = m.group(1) if m else None
            ctx.check(L + '/direction', Or(*[And(d == k, dirtext == nm) for k, nm in D.IOC_DIRS.items()]),
                      'direction text %r' % dirtext)
            from vxlib.symx.values import mkb
            from vxlib.symx import term
            ctx.check(L + '/group', mkb(atoms[1].term == term(want_g)) if atoms[1].kind == 'chr' else False)
            ctx.check(L + '/number', mkb(atoms[2].term == term(want_n)) if atoms[2].kind == 'd' else False)
            ctx.check(L + '/length', mkb(atoms[3].term == term(want_l)) if atoms[3].kind == 'd' else False)
    else:
        m = _IOC_RE.search(o.text)
        ctx.check(L + '/shape', m is not None)
        if m:
            ctx.check(L + '/direction', m.group('dir') == D.IOC_DIRS.get(want_dir))
            ctx.check(L + '/group', m.group('g') == chr(want_g))
            ctx.check(L + '/number', int(m.group('n')) == want_n)
            ctx.check(L + '/length', int(m.group('l')) == want_l)
    ctx.reach()


def run_pathwise(ctx, st):
    """the loop-style helpers on the untouched source, forking per bit"""
    if ctx.symbolic:
        from vxlib.symx import loader
        bsd = loader.load_pristine('pykdebugparser.trace_handlers.bsd')
    else:
        from pykdebugparser.trace_handlers import bsd
    v = ctx.int('flags')
    if st['fn'] == 'open':
        ctx.assume((v & 3) == st['acc'])
        ctx.assume(((v >> 2) & 7) == st['hi'])        # O_NONBLOCK, O_APPEND, O_SHLOCK fixed per shard
        got = bsd.serialize_open_flags(v)
        spec, applicable, unconstrained = spec_open(v)
        L = 'C11/serialize_open_flags'
        fam = 'open'
    else:
        ctx.assume(((v >> 12) & 0xf) == st['type'])
        ctx.assume((v & 3) == st['hi'])
        got = bsd.serialize_stat_flags(v)
        spec, applicable, unconstrained = spec_stat(v)
        L = 'C11/serialize_stat_flags'
        fam = 'stat'
    names = [f.name for f in got]
    declared = declared_names(set(names), fam)
    for n in sorted(set(names) | (declared & set(spec))):
        if n in unconstrained:
            continue
        g = n in names
        if n not in spec:
            ctx.check('%s/%s' % (L, n), not g)
            continue
        c = spec[n]
        ctx.check('%s/%s' % (L, n), Implies(applicable, And(Implies(g, c), Implies(c, g))))
    ctx.reach()
