#!/usr/bin/env python3
"""Evaluate a seeded change against the checks, in a scratch worktree (never in /repo).

usage: tools_seed.py eval <seed-dir> <worktree> <prop> [<prop> ...]   -> prints a JSON summary
       tools_seed.py keep <seed-dir> <id> <json-summary-file>         -> copies into /verif/seeded/<id>/
       tools_seed.py regress [-j N] [<id> ...]                        -> re-evaluates the kept seeds (all by default) in
                                                                         scratch worktrees under /tmp that it creates and
                                                                         removes; writes seeded/REGRESSION.json
A seed dir holds patch.diff and demo.py.  The worktree must be a clean checkout of /repo's HEAD.
"""
import json, os, shutil, subprocess, sys, tempfile

HERE = os.path.dirname(os.path.abspath(__file__))
PY = '/venv/bin/python'


def sh(cmd, cwd=None, env=None, timeout=3600):
    p = subprocess.run(cmd, cwd=cwd, env=env, capture_output=True, text=True, timeout=timeout)
    return p.returncode, p.stdout + p.stderr


def evaluate(seed, wt, props, tier='quick'):
    res = {'seed': seed, 'worktree': wt, 'props': props}
    env = dict(os.environ, PYTHONPATH=wt, PYTHONDONTWRITEBYTECODE='1')
    sh(['git', 'checkout', '--', '.'], cwd=wt)
    rc, out = sh([PY, os.path.join(seed, 'demo.py')], cwd=seed, env=env)
    res['demo_clean'] = rc
    rc, out = sh(['git', 'apply', os.path.join(seed, 'patch.diff')], cwd=wt)
    if rc:
        # the seed was written against an earlier HEAD of /repo (a later fix: commit touched the same file): 3-way merge
        rc, out = sh(['git', 'apply', '--3way', os.path.join(seed, 'patch.diff')], cwd=wt)
        sh(['git', 'reset', '-q'], cwd=wt)
        res['applied_3way'] = True
    if rc:
        res['error'] = 'patch does not apply: ' + out[-300:]
        return res
    try:
        rc, out = sh([PY, '-m', 'pytest', '-q', '-p', 'no:cacheprovider'], cwd=wt)
        res['tests_rc'] = rc
        res['tests_tail'] = out.strip().splitlines()[-1] if out.strip() else ''
        rc, out = sh([PY, os.path.join(seed, 'demo.py')], cwd=seed, env=env)
        res['demo_patched'] = rc
        res['demo_tail'] = out.strip().splitlines()[-3:]
        res['checks'] = {}
        outdir = tempfile.mkdtemp(prefix='vxseed')
        try:
            for p in props:
                cenv = dict(os.environ, VX_REPO=wt, VX_OUT=outdir)
                rc, out = sh([os.path.join(HERE, 'vx'), 'check', p, '--tier', tier], cwd=HERE, env=cenv)
                lines = [l for l in out.splitlines() if l.startswith(('VIOLATION', 'KNOWN-FINDING', 'INCONCLUSIVE', '  label='))]
                res['checks'][p] = {'exit': rc, 'lines': [l[:300] for l in lines[:8]], 'n_violation_lines': sum(1 for l in lines if l.startswith('VIOLATION'))}
        finally:
            shutil.rmtree(outdir, ignore_errors=True)
    finally:
        sh(['git', 'checkout', '--', '.'], cwd=wt)
    return res


def main():
    if sys.argv[1] == 'eval':
        tier = os.environ.get('SEED_TIER', 'quick')
        print(json.dumps(evaluate(os.path.abspath(sys.argv[2]), os.path.abspath(sys.argv[3]), sys.argv[4:], tier), indent=1))
    elif sys.argv[1] == 'regress':
        regress(sys.argv[2:])
    elif sys.argv[1] == 'keep':
        seed, sid, summ = sys.argv[2], sys.argv[3], json.load(open(sys.argv[4]))
        dst = os.path.join(HERE, 'seeded', sid)
        os.makedirs(dst, exist_ok=True)
        for f in ('patch.diff', 'demo.py', 'notes.md'):
            if os.path.exists(os.path.join(seed, f)):
                shutil.copy(os.path.join(seed, f), os.path.join(dst, f))
        json.dump(summ, open(os.path.join(dst, 'meta.json'), 'w'), indent=1)


def regress(argv):
    import concurrent.futures as cf
    jobs = 3
    if argv[:1] == ['-j']:
        jobs, argv = int(argv[1]), argv[2:]
    root = os.path.join(HERE, 'seeded')
    ids = argv or sorted(d for d in os.listdir(root) if os.path.isfile(os.path.join(root, d, 'patch.diff')))
    ben = os.path.join(root, 'benign')
    if not argv and os.path.isdir(ben):
        ids += ['benign/' + d for d in sorted(os.listdir(ben)) if os.path.isfile(os.path.join(ben, d, 'patch.diff'))]
    base = tempfile.mkdtemp(prefix='vxreg')
    wts = []
    for k in range(jobs):
        wt = os.path.join(base, 'wt%d' % k)
        rc, out = sh(['git', '-C', '/repo', 'worktree', 'add', '--detach', wt, 'HEAD'])
        if rc:
            raise SystemExit('cannot create worktree: ' + out)
        wts.append(wt)
    import queue
    free = queue.Queue()
    for wt in wts:
        free.put(wt)
    results = {}

    def one(sid):
        wt = free.get()
        try:
            d = os.path.join(root, sid)
            meta = json.load(open(os.path.join(d, 'meta.json')))
            props = meta.get('checks_run') or [meta['property']]
            r = evaluate(d, wt, props, os.environ.get('SEED_TIER', 'quick')) if os.path.exists(os.path.join(d, 'demo.py')) \
                else evaluate_nodemo(d, wt, props)
            return sid, meta, r
        finally:
            free.put(wt)
    try:
        with cf.ThreadPoolExecutor(jobs) as ex:
            for sid, meta, r in ex.map(one, ids):
                benign = sid.startswith('benign/')
                exits = {p: c['exit'] for p, c in r.get('checks', {}).items()}
                nviol = sum(c['n_violation_lines'] for c in r.get('checks', {}).values())
                ok = (nviol == 0) if benign else (exits.get(meta.get('property')) == 1)
                results[sid] = {'benign': benign, 'tests_rc': r.get('tests_rc'), 'exits': exits, 'violation_lines': nviol,
                                'as_expected': ok, 'error': r.get('error')}
                print('%-12s %s exits=%s violations=%d %s' % (sid, 'ok ' if ok else 'NOT-AS-EXPECTED', exits, nviol, r.get('error') or ''), flush=True)
    finally:
        for wt in wts:
            sh(['git', '-C', '/repo', 'worktree', 'remove', '--force', wt])
        sh(['git', '-C', '/repo', 'worktree', 'prune'])
        shutil.rmtree(base, ignore_errors=True)
    head = sh(['git', '-C', '/repo', 'rev-parse', 'HEAD'])[1].strip()
    out = os.path.join(root, 'REGRESSION.json')
    if argv and os.path.exists(out):      # a partial run updates the entries it covers
        old = json.load(open(out)).get('results', {})
        old.update(results)
        results_all = old
    else:
        results_all = results
    json.dump({'repo_head': head, 'results': results_all}, open(out, 'w'), indent=1, sort_keys=True)
    bad = [k for k, v in results.items() if not v['as_expected']]
    print('%d seeds, %d not as expected: %s' % (len(results), len(bad), bad))


def evaluate_nodemo(seed, wt, props):
    open(os.path.join(seed, 'demo.py'), 'w').write('')
    try:
        return evaluate(seed, wt, props)
    finally:
        os.remove(os.path.join(seed, 'demo.py'))


if __name__ == '__main__':
    main()
