#!/usr/bin/env python3
"""Evaluate a seeded change against the checks, in a scratch worktree (never in /repo).

usage: tools_seed.py eval <seed-dir> <worktree> <prop> [<prop> ...]   -> prints a JSON summary
       tools_seed.py keep <seed-dir> <id> <json-summary-file>         -> copies into /verif/seeded/<id>/
A seed dir holds patch.diff and demo.py.  The worktree must be a clean checkout of /repo's HEAD.
"""
import json, os, shutil, subprocess, sys, tempfile

HERE = os.path.dirname(os.path.abspath(__file__))
PY = '/venv/bin/python'


def sh(cmd, cwd=None, env=None, timeout=3600):
    p = subprocess.run(cmd, cwd=cwd, env=env, capture_output=True, text=True, timeout=timeout)
    return p.returncode, p.stdout + p.stderr


def evaluate(seed, wt, props, tier='quick'):
    res = {'seed': seed, 'worktree': wt, 'props': props}
    env = dict(os.environ, PYTHONPATH=wt, PYTHONDONTWRITEBYTECODE='1')
    sh(['git', 'checkout', '--', '.'], cwd=wt)
    rc, out = sh([PY, os.path.join(seed, 'demo.py')], cwd=seed, env=env)
    res['demo_clean'] = rc
    rc, out = sh(['git', 'apply', os.path.join(seed, 'patch.diff')], cwd=wt)
    if rc:
        res['error'] = 'patch does not apply: ' + out[-300:]
        return res
    try:
        rc, out = sh([PY, '-m', 'pytest', '-q', '-p', 'no:cacheprovider'], cwd=wt)
        res['tests_rc'] = rc
        res['tests_tail'] = out.strip().splitlines()[-1] if out.strip() else ''
        rc, out = sh([PY, os.path.join(seed, 'demo.py')], cwd=seed, env=env)
        res['demo_patched'] = rc
        res['demo_tail'] = out.strip().splitlines()[-3:]
        res['checks'] = {}
        outdir = tempfile.mkdtemp(prefix='vxseed')
        try:
            for p in props:
                cenv = dict(os.environ, VX_REPO=wt, VX_OUT=outdir)
                rc, out = sh([os.path.join(HERE, 'vx'), 'check', p, '--tier', tier], cwd=HERE, env=cenv)
                lines = [l for l in out.splitlines() if l.startswith(('VIOLATION', 'KNOWN-FINDING', 'INCONCLUSIVE', '  label='))]
                res['checks'][p] = {'exit': rc, 'lines': [l[:300] for l in lines[:8]], 'n_violation_lines': sum(1 for l in lines if l.startswith('VIOLATION'))}
        finally:
            shutil.rmtree(outdir, ignore_errors=True)
    finally:
        sh(['git', 'checkout', '--', '.'], cwd=wt)
    return res


def main():
    if sys.argv[1] == 'eval':
        tier = os.environ.get('SEED_TIER', 'quick')
        print(json.dumps(evaluate(os.path.abspath(sys.argv[2]), os.path.abspath(sys.argv[3]), sys.argv[4:], tier), indent=1))
    elif sys.argv[1] == 'keep':
        seed, sid, summ = sys.argv[2], sys.argv[3], json.load(open(sys.argv[4]))
        dst = os.path.join(HERE, 'seeded', sid)
        os.makedirs(dst, exist_ok=True)
        for f in ('patch.diff', 'demo.py', 'notes.md'):
            if os.path.exists(os.path.join(seed, f)):
                shutil.copy(os.path.join(seed, f), os.path.join(dst, f))
        json.dump(summ, open(os.path.join(dst, 'meta.json'), 'w'), indent=1)


if __name__ == '__main__':
    main()
