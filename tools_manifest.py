#!/usr/bin/env python3
"""helper: (re)register a check in MANIFEST.json   usage: tools_manifest.py add <pid> <json-file-with-fields>"""
import json, sys
def add(pid, text, note, technique, design):
    m = json.load(open('MANIFEST.json'))
    m['checks'] = [c for c in m['checks'] if c['property_id'] != pid]
    m['checks'].append({"property_id": pid, "quick_cmd": "./vx check %s --tier quick" % pid,
                        "thorough_cmd": "./vx check %s --tier thorough" % pid,
                        "evidence_file": "evidence/%s.json" % pid, "replay_cmd_template": "./vx replay {path}", "engine": "symx",
                        "level_claimed": {"category": "other", "text": text, "design_ref": design},
                        "level_note": note, "technique": technique})
    m['not_applicable'] = [n for n in m['not_applicable'] if n['property_id'] != pid]
    m['checks'].sort(key=lambda c: c['property_id'])
    for e in m['engines']:
        if pid not in e['serves_properties']:
            e['serves_properties'].append(pid); e['serves_properties'].sort()
    json.dump(m, open('MANIFEST.json', 'w'), indent=1)
if __name__ == '__main__':
    d = json.load(open(sys.argv[1]))
    for pid, v in d.items():
        add(pid, v['text'], v['note'], v['technique'], v['design'])
