"""Declarative START/END pairing (C04): which window an END closes, what a single event yields.

State: list of windows.  A window = dict(tid, domain, code, events=[...]) in opening order.
`same(a, b)` decides equality of thread ids (plain == for ints; solver-decided for proxies).
"""
NONE, START, END, ALL = 0, 1, 2, 3


def domain_of(name):
    """kernel trace-string / trace-data records pair only among themselves"""
    return 'trace' if name is not None and name.startswith(('TRACE_DATA_', 'TRACE_STRING_')) else 'event'


class Ev:
    def __init__(self, obj, tid, code, qual, name, decodable):
        self.obj, self.tid, self.code, self.qual, self.name, self.decodable = obj, tid, code, qual, name, decodable
        self.domain = domain_of(name)


def same(a, b):
    return bool(a == b)


def step(state, e):
    """-> (new_state, emitted) where emitted is None or the list of Ev making up the trace; also marks stray ENDs"""
    mine = [w for w in state if w['domain'] == e.domain and same(w['tid'], e.tid)]
    if e.qual == START:
        new = [w for w in state if not (any(w is m for m in mine) and w['code'] == e.code)]
        neww = {'tid': e.tid, 'domain': e.domain, 'code': e.code, 'events': []}
        new.append(neww)
        for w in new:
            if w['domain'] == e.domain and same(w['tid'], e.tid):
                w['events'] = w['events'] + [e]
        return new, None
    if e.qual == END:
        target = [w for w in mine if w['code'] == e.code]
        if not target:
            e.stray = True
            return state, None          # produces nothing and changes nothing
        for w in mine:
            w['events'] = w['events'] + [e]
        w = target[-1]
        new = [x for x in state if x is not w]
        return new, (w['events'] if e.decodable else None)
    # NONE / ALL: alone, and part of every open window of its thread and domain
    for w in mine:
        w['events'] = w['events'] + [e]
    return state, ([e] if e.decodable else None)


def copy_state(state):
    return [dict(w, events=list(w['events'])) for w in state]
