"""Compact-log record keys (as ktrace / log(1) archives name them) and what each carries (C16).
kind: 'int' plain value, 'str' id into the string index, 'bytes' raw bytes, 'logtype' OsLogType value,
'tz' {mw, dt}, 'date' dict passed through, 'bt' list of {iu, io}, 'lc' {c, s}, 'ti' trace identifier word, 'dm' message."""

MANDATORY = ['cm', 't', 's', 'tid', 'ns', 'mct', 'b', 'piu', 'ud', 'utz']
OPTIONAL = {
    'ti': ('trace_identifier', 'ti'), 'pip': ('process_image_path', 'str'), 'p': ('process', 'str'),
    'sip': ('sender_image_path', 'str'), 'send': ('sender', 'str'), 'sio': ('sender_image_offset', 'int'),
    'siu': ('sender_image_uuid', 'bytes'), 'lt': ('log_type', 'logtype'), 'ttl': ('time_to_live', 'int'),
    'pid': ('process_identifier', 'int'), 'aid': ('activity_identifier', 'int'),
    'paid': ('parent_activity_identifier', 'int'), 'tai': ('transition_activity_identifier', 'int'),
    'sub': ('subsystem', 'str'), 'cat': ('category', 'str'), 'f': ('format_string', 'str'),
    'cai': ('creator_activity_identifier', 'int'), 'cpui': ('creator_process_unique_identifier', 'int'),
    'si': ('signpost_identifier', 'int'), 'sn': ('signpost_name', 'str'), 'st': ('signpost_type', 'int'),
    'ss': ('signpost_scope', 'int'), 'lsmct': ('loss_start_mach_continuous_timestamp', 'int'),
    'lemct': ('loss_end_mach_continuous_timestamp', 'int'), 'lsud': ('loss_start_unix_date', 'date'),
    'leud': ('loss_end_unix_date', 'date'), 'lsutz': ('loss_start_unix_timezone', 'tz'),
    'leutz': ('loss_end_unix_timezone', 'tz'), 'bt': ('backtrace', 'bt'), 'lc': ('loss_count', 'lc'),
    'dm': ('decomposed_message', 'dm'),
}
LOG_TYPES = {0: 'DEFAULT', 1: 'INFO', 2: 'DEBUG', 0x10: 'ERROR', 0x11: 'FAULT'}

# firehose_tracepoint_id_t (libkern/firehose/firehose_types_private.h): u8 namespace, u8 type, u16 flags, u32 code;
# flags: has_current_aid 0x0001, pc_style mask 0x000e, has_unique_pid 0x0010, has_large_offset 0x0020,
# namespace specific flags in the high byte
NAMESPACES = {0: 'unknown', 2: 'activity', 3: 'trace', 4: 'log', 5: 'metadata', 6: 'signpost', 7: 'loss'}
TYPES = {
    'activity': {1: 'create', 2: 'swap', 3: 'useraction'},
    'trace': {0: 'default', 1: 'info', 2: 'debug', 0x10: 'error', 0x11: 'fault'},
    'log': {0: 'default', 1: 'info', 2: 'debug', 0x10: 'error', 0x11: 'fault'},
    'metadata': {1: 'dyld', 2: 'subsystem', 3: 'kext', 4: 'coprocessor'},
}
PC_STYLES = {0: 'none', 1: 'main_exe', 2: 'shared_cache', 3: 'main_plugin', 4: 'absolute', 5: 'uuid_relative',
             6: 'large_shared_cache', 7: '_unused7'}


def unpack_trace_id(w):
    return {'namespace': w & 0xff, 'type': (w >> 8) & 0xff, 'has_current_aid': (w >> 16) & 1, 'pc_style': (w >> 17) & 7,
            'has_unique_pid': (w >> 20) & 1, 'has_large_offset': (w >> 21) & 1, 'flags': (w >> 24) & 0xff,
            'code': (w >> 32) & 0xffffffff}


# ------------------------------------------------------------------ decomposed messages (reference decoding)
def decode_segment(seg, strings):
    """a message segment as the format defines it: literal prefix, placeholder (strings through the index, width and
    precision as they are), argument (scalar details for category 1; object representation of an available argument -
    availability absent or 3 - through the index for category 2, as the raw value otherwise)"""
    out = {}
    if 'lp' in seg:
        out['literal_prefix'] = strings[seg['lp']]
    if 'p' in seg:
        p = seg['p']
        ph = {}
        if 'rs' in p:
            ph['raw_string'] = strings[p['rs']]
        if p.get('t'):
            ph['tokens'] = [strings[t] for t in p['t']]
        if 'tn' in p:
            ph['type_namespace'] = strings[p['tn']]
        if 'ty' in p:
            ph['type'] = strings[p['ty']]
        ph['width'] = p['w']
        ph['precision'] = p['p']
        out['placeholder'] = ph
    if 'a' in seg:
        a = seg['a']
        arg = {}
        for k, f in (('a', 'availability'), ('p', 'privacy'), ('c', 'category')):
            if k in a:
                arg[f] = a[k]
        if arg.get('category') == 1:
            for k, f in (('sc', 'scalar_category'), ('st', 'scalar_type')):
                if k in a:
                    arg[f] = a[k]
        if ('availability' not in arg or arg['availability'] == 3) and 'or' in a:
            arg['object_representation'] = strings[a['or']] if arg.get('category') == 2 else a['or']
        out['arg'] = arg
    return out


def decode_dm(dm, strings):
    out = {'placeholder_count': dm['pc'], 'state': dm['s']}
    if dm['pc'] and 'seg' in dm:          # a placeholder count of 0 carries no segment list
        out['segments'] = [decode_segment(s, strings) for s in dm['seg']]
    return out
