"""Writer for version-3 ('RAW_VERSION3') dumps: the inverse of the chunk grammar the parser
documents (there is no sample file and no specification in the repository; see DESIGN.md section 3).

A file is: version(4) | header chunk (60 fixed bytes, length-prefixed cpu-info plist, padded to 8) |
4 bytes of alignment | stackshot filler ... 'stackshot_out_fl' | ... thread-map tag | u64 length |
thread-map entries | { events tag | u64 size | 8 zero bytes | records | [more-events tag ...] } |
{ block tag(8) | u64 length | payload | pad to 8 }*
"""
import plistlib
from .kdebug import to_le, threadmap_entry, RAW_VERSION3

STACKSHOT_END = b'stackshot_out_fl'
TAG_THREADMAP = b'\x00\x1d\x00\x00\x00\x00\x00\x00'
TAG_EVENTS = b'\x00\x1e\x00\x00\x00\x00\x00\x00'
TAG_MORE_EVENTS = b'\x00\x20\x00\x00\x00\x00\x00\x00'
TAGS = {
    'dyld': b'\x01\x80\x00\x00\x00\x00\x00\x00',
    'codes': b'\x0f\x80\x00\x00\x00\x00\x00\x00',
    'processes': b'\x10\x80\x00\x00\x00\x00\x00\x00',
    'logs': b'\x11\x80\x00\x00\x00\x00\x00\x00',
    'strings': b'\x12\x80\x00\x00\x00\x00\x00\x00',
    'kexts': b'\x05\x80\x00\x00\x00\x00\x00\x00',
    'images': b'\x04\x80\x00\x00\x01\x00\x00\x00',
}
HEADER_DEFAULTS = dict(tag=0x55aa0300, sub_tag=0, length=0, timebase_numer=125, timebase_denom=3, timestamp=1000,
                       walltime_secs=1700000000, walltime_usecs=5, timezone_minuteswest=480, timezone_dst=0, flags=1, tag2=0)


def pad8(n):
    return (-n) % 8


def header(cpu_info=None, **fields):
    f = dict(HEADER_DEFAULTS)
    f.update(fields)
    b = (to_le(f['tag'], 4) + to_le(f['sub_tag'], 4) + to_le(f['length'], 8) + to_le(f['timebase_numer'], 4) +
         to_le(f['timebase_denom'], 4) + to_le(f['timestamp'], 8) + to_le(f['walltime_secs'], 8) +
         to_le(f['walltime_usecs'], 4) + to_le(f['timezone_minuteswest'], 4) + to_le(f['timezone_dst'], 4) +
         to_le(f['flags'], 4) + to_le(f['tag2'], 4))
    pl = plistlib.dumps(cpu_info if cpu_info is not None else {'cpus': 2}, fmt=plistlib.FMT_BINARY)
    b = b + to_le(len(pl), 8) + pl
    return b + bytes(pad8(len(b)))


def encode_block(kind, payload):
    if kind == 'codes':
        data = payload.encode() if isinstance(payload, str) else payload
    elif isinstance(payload, (bytes, bytearray)):
        data = bytes(payload)
    else:
        data = plistlib.dumps(payload, fmt=plistlib.FMT_BINARY)
    return TAGS[kind] + to_le(len(data), 8) + data + bytes(pad8(len(data)))


def v3_file(threads, chunks, blocks, filler=b'', gap=b'', cpu_info=None, between=b'', **hdr):
    """threads: (tid, pid, name) triples; chunks: list of lists of 64-byte records; blocks: (kind, payload) pairs;
    filler: stackshot bytes before the end marker; gap: bytes between the marker and the thread-map tag"""
    b = RAW_VERSION3 + header(cpu_info, **hdr) + bytes(4)
    b = b + filler + STACKSHOT_END + gap + TAG_THREADMAP
    tm = b''
    for tid, pid, name in threads:
        tm = tm + threadmap_entry(tid, pid, name)
    b = b + to_le(len(tm), 8) + tm
    for i, recs in enumerate(chunks):
        b = b + TAG_EVENTS + to_le(8 + 64 * len(recs), 8) + bytes(8)
        for r in recs:
            b = b + r
        if i + 1 < len(chunks):
            b = b + TAG_MORE_EVENTS + between
    for kind, payload in blocks:
        b = b + encode_block(kind, payload)
    return b


# ------------------------------------------------------------------ representative log payloads
LOG_PROCESS_NAME = 'backboardd'
LOG_PID = 66


def sample_strings():
    return {'StringIndex': {'hello world': 1, LOG_PROCESS_NAME: 0, '/usr/libexec/backboardd': 3, 'second message': 4,
                            'com.apple.sub': 5, 'cat': 6, 'fmt %d': 7}}


def sample_strings_inverse():
    return {v: k for k, v in sample_strings()['StringIndex'].items()}


def mandatory(cm, tid, **extra):
    ev = {'cm': cm, 't': 'log', 's': 40, 'tid': tid, 'ns': 1234567, 'mct': 7654321, 'b': b'\x01' * 16, 'piu': b'\x02' * 16,
          'ud': {'sec': 1700000000, 'usec': 250000}, 'utz': {'mw': 480, 'dt': 0}}
    ev.update(extra)
    return ev


def sample_logs():
    return {'Events': [mandatory(1, 0x501, p=0, pid=LOG_PID, pip=3, lt=0),
                       mandatory(4, 0x502)]}
