"""Which process does the dump declare for a thread at a point of the stream (C14).

Declarations, in stream order: the thread map (tid -> pid, pid -> name); TRACE_DATA_NEWTHREAD (new tid -> pid);
TRACE_STRING_NEWTHREAD / TRACE_STRING_EXEC (name of the pid announced by the same thread's preceding data record);
TRACE_DATA_THREAD_TERMINATE_PID (emitting tid -> pid); PERF_THD_Data (tid -> pid).  Later declarations win.
Equality of ids is plain == (decided by the solver for proxies).
"""


class Declared:
    def __init__(self, threads):
        self.tp = [(t, p) for t, p, _ in threads]
        self.pn = [(p, n) for _, p, n in threads]
        self.pending = {}          # emitting tid (concrete) -> ('newthread' | 'exec', pid)

    def apply(self, kind, tid, w=None, text=None):
        if kind == 'TRACE_DATA_NEWTHREAD':
            self.tp.append((w[0], w[1]))
            self.pending[('n', tid)] = w[1]
        elif kind == 'TRACE_DATA_EXEC':
            self.pending[('e', tid)] = w[0]
        elif kind == 'TRACE_STRING_NEWTHREAD':
            if ('n', tid) in self.pending:
                self.pn.append((self.pending[('n', tid)], text))
        elif kind == 'TRACE_STRING_EXEC':
            if ('e', tid) in self.pending:
                self.pn.append((self.pending[('e', tid)], text))
        elif kind == 'TRACE_DATA_THREAD_TERMINATE_PID':
            self.tp.append((tid, w[0]))
        elif kind == 'PERF_THD_Data':
            self.tp.append((w[1], w[0]))

    @staticmethod
    def _last(pairs, key):
        found, val = False, None
        for k, v in pairs:
            if bool(k == key):
                found, val = True, v
        return found, val

    def process_of(self, tid):
        """-> None (never declared) | (pid, name or '')"""
        found, pid = self._last(self.tp, tid)
        if not found:
            return None
        f2, name = self._last(self.pn, pid)
        return pid, (name if f2 else '')
