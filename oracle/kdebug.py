"""Producer-side reference for Darwin kdebug records and containers, written from xnu's
bsd/sys/kdebug.h (kd_buf, 64-bit layout) and the kernel's emitters -- not from the repo.

All functions are plain Python over ints / bytes-like values; they run unchanged on concrete
values and on the engine's proxies.

    typedef struct {
        uint64_t  timestamp;
        kd_buf_argtype arg1, arg2, arg3, arg4;   // 4 x 64 bit
        kd_buf_argtype arg5;                     // thread id
        uint32_t  debugid;
        uint32_t  cpuid;
        kd_buf_argtype unused;
    } kd_buf;                                    // 64 bytes, little endian
"""
KDBG_EVENTID_MASK = 0xfffffffc
KDBG_FUNC_MASK = 0x00000003
DBG_FUNC_NONE, DBG_FUNC_START, DBG_FUNC_END, DBG_FUNC_ALL = 0, 1, 2, 3
KD_BUF_SIZE = 64


def le(b, off, n):
    """little-endian unsigned word of n bytes at offset off"""
    v = 0
    for i in range(n):
        v = v | (b[off + i] << (8 * i))
    return v


def to_le(x, n):
    return x.to_bytes(n, 'little')


class Rec:
    """decoded kd_buf, by the header's layout"""

    def __init__(self, b):
        self.raw = b
        self.timestamp = le(b, 0, 8)
        self.args = [le(b, 8 + 8 * i, 8) for i in range(4)]
        self.data = b[8:40]
        self.tid = le(b, 40, 8)
        self.debugid = le(b, 48, 4)
        self.cpuid = le(b, 52, 4)
        self.eventid = self.debugid & KDBG_EVENTID_MASK
        self.func = self.debugid & KDBG_FUNC_MASK


def pack_rec(timestamp, args, tid, debugid, cpuid=0, unused=0):
    b = to_le(timestamp, 8)
    for a in args:
        b = b + to_le(a, 8)
    return b + to_le(tid, 8) + to_le(debugid, 4) + to_le(cpuid, 4) + to_le(unused, 8)


def pack_rec_data(timestamp, data, tid, debugid, cpuid=0, unused=0):
    assert len(data) == 32
    return to_le(timestamp, 8) + data + to_le(tid, 8) + to_le(debugid, 4) + to_le(cpuid, 4) + to_le(unused, 8)


# ------------------------------------------------------------------------------ containers
RAW_VERSION2 = b'\x00\x02\xaa\x55'
RAW_VERSION3 = b'\x00\x03\xaa\x55'


def threadmap_entry(tid, pid, name):
    """kd_threadmap (64-bit): uintptr_t thread; int valid(pid); char command[20] (NUL-terminated, strlcpy)"""
    if isinstance(name, bytes) and len(name) == 20:
        # a raw command field: the name ends at the first NUL, what follows is whatever the buffer held before
        return to_le(tid, 8) + to_le(pid, 4) + name
    assert isinstance(name, bytes) and len(name) <= 19 and b'\x00' not in name
    return to_le(tid, 8) + to_le(pid, 4) + name + bytes(20 - len(name))


def v2_file(threads, pad, records, is_64bit=1, tick_frequency=24000000):
    """version-2 dump as the parser documents it: version, thread count, 12 reserved bytes, is_64bit, tick frequency,
    0x100 reserved bytes, thread map, zero padding, records"""
    b = RAW_VERSION2 + to_le(len(threads), 4) + bytes(8) + bytes(4) + to_le(is_64bit, 4) + to_le(tick_frequency, 8)
    b = b + bytes(0x100)
    for tid, pid, name in threads:
        b = b + threadmap_entry(tid, pid, name)
    b = b + bytes(pad)
    for r in records:
        b = b + r
    return b


def fold_threadmap(threads):
    """the tables a thread map declares: later entries win -> (tid->pid, pid->name) as association lists"""
    return [(t, p) for t, p, _ in threads], [(p, n.split(b'\x00')[0].decode()) for _, p, n in threads]


# ------------------------------------------------------------------------------ kernel emitters of split texts
def chunk_lookup(text, vnode_id):
    """kdebug_vfs_lookup (bsd/vfs/vfs_lookup.c): the first record carries the vnode id and 3 longs (24 bytes) of the
    path, every following record 4 longs (32 bytes); unused bytes are NUL; START on the first record, END on the last
    (both on a single record), no qualifier on the ones in between.  -> [(qualifier, 32 data bytes)]"""
    chunks = [text[:24]]
    rest = text[24:]
    while len(rest):
        chunks.append(rest[:32])
        rest = rest[32:]
    out = []
    for i, ch in enumerate(chunks):
        q = (DBG_FUNC_START if i == 0 else 0) | (DBG_FUNC_END if i == len(chunks) - 1 else 0)
        if i == 0:
            data = to_le(vnode_id, 8) + ch + bytes(24 - len(ch))
        else:
            data = ch + bytes(32 - len(ch))
        out.append((q, data))
    return out


def chunk_string(text, debugid, str_id):
    """kernel_debug_string (bsd/kern/kdebug.c): first record = debug id, string id and 16 bytes of the string (START),
    then 32 bytes per record, END on the last record (both on a single record)"""
    chunks = [text[:16]]
    rest = text[16:]
    while len(rest):
        chunks.append(rest[:32])
        rest = rest[32:]
    out = []
    for i, ch in enumerate(chunks):
        q = (DBG_FUNC_START if i == 0 else 0) | (DBG_FUNC_END if i == len(chunks) - 1 else 0)
        if i == 0:
            data = to_le(debugid, 8) + to_le(str_id, 8) + ch + bytes(16 - len(ch))
        else:
            data = ch + bytes(32 - len(ch))
        out.append((q, data))
    return out


def chunk_simple(text):
    """kernel_debug_string_simple: 32 bytes per record, START on the first, END on the last"""
    chunks = [text[i:i + 32] for i in range(0, len(text), 32)] or [text[:0]]
    out = []
    for i, ch in enumerate(chunks):
        q = (DBG_FUNC_START if i == 0 else 0) | (DBG_FUNC_END if i == len(chunks) - 1 else 0)
        out.append((q, ch + bytes(32 - len(ch))))
    return out
